"""E4 — compile-fail witnesses with compiling twins.

Each witness is compiled (type-check only, `--emit=metadata`) against the .rmeta of /repo's current tree.
A must-fail witness passes iff compilation fails with exactly the expected error code on a line marked `//~`
and its twin (the marked lines removed) compiles; a must-compile witness guards against over-restriction.
"""
import glob
import json
import os
import shutil
import subprocess
import tempfile
from concurrent.futures import ThreadPoolExecutor

from . import extract

WDIR = os.path.join(extract.VERIF, "witnesses")


def load():
    out = []
    for f in sorted(glob.glob(os.path.join(WDIR, "*.rs"))):
        src = open(f).read()
        first = src.splitlines()[0]
        exp = first.split("expect:")[1].strip() if "expect:" in first else "compile"
        lines = src.splitlines()
        marked = [i + 1 for i, l in enumerate(lines) if l.rstrip().endswith("//~")]
        twin = "\n".join(l for l in lines if not l.rstrip().endswith("//~")) + "\n"
        out.append({"name": os.path.basename(f)[:-3], "file": f, "expect": exp, "src": src, "twin": twin, "marked": marked})
    return out


def compile_one(src_path, deps, rmeta, outdir, sysroot_env):
    cmd = ["rustc", "+nightly", "--edition", "2021", "--emit=metadata", "--crate-type", "bin", "--error-format=json", "-Awarnings",
           "-L", "dependency=" + deps, "--extern", "prefix_trie=" + rmeta, "--out-dir", outdir, src_path]
    p = subprocess.run(cmd, stdout=subprocess.PIPE, stderr=subprocess.PIPE, text=True)
    errs = []
    for line in p.stderr.splitlines():
        try:
            d = json.loads(line)
        except Exception:
            continue
        if d.get("level") == "error" and d.get("code"):
            ln = [s["line_start"] for s in d.get("spans", []) if s.get("is_primary")]
            errs.append((d["code"]["code"], ln, d.get("message", "")[:160]))
        elif d.get("level") == "error":
            errs.append((None, [], d.get("message", "")[:160]))
    return p.returncode, errs


def run_all(target_dir, repo=None):
    """returns list of result dicts"""
    deps = os.path.join(target_dir, "debug", "deps")
    rm = sorted(glob.glob(os.path.join(deps, "libprefix_trie-*.rmeta")))
    if not rm:
        return None, "no libprefix_trie rmeta in " + deps
    rmeta = rm[-1]
    ws = load()
    tmp = tempfile.mkdtemp(prefix="ptwit-", dir=extract.SCRATCH)
    try:
        def one(w):
            d = os.path.join(tmp, w["name"])
            os.makedirs(d + "/a")
            os.makedirs(d + "/b")
            fa, fb = os.path.join(d, "a", "w.rs"), os.path.join(d, "b", "w.rs")
            open(fa, "w").write(w["src"])
            open(fb, "w").write(w["twin"])
            rc, errs = compile_one(fa, deps, rmeta, d + "/a", None)
            res = {"name": w["name"], "expect": w["expect"], "rc": rc, "errors": errs[:4]}
            if w["expect"] == "compile":
                res["ok"] = rc == 0
                res["why"] = "" if rc == 0 else "must compile but fails: %s" % errs[:2]
                return res
            rc2, errs2 = compile_one(fb, deps, rmeta, d + "/b", None)
            res["twin_rc"] = rc2
            hit = [e for e in errs if e[0] == w["expect"] and any(l in w["marked"] for l in e[1])]
            if rc == 0:
                res["ok"], res["why"] = False, "the program compiles although it must be rejected with %s" % w["expect"]
            elif not hit:
                res["ok"], res["why"] = False, "rejected, but not with %s on the marked line: %s" % (w["expect"], errs[:3])
            elif rc2 != 0:
                res["ok"], res["why"] = False, "the twin (marked line removed) does not compile: %s — the witness proves nothing" % errs2[:2]
            else:
                res["ok"], res["why"] = True, ""
            return res
        with ThreadPoolExecutor(max_workers=16) as ex:
            return list(ex.map(one, ws)), None
    finally:
        shutil.rmtree(tmp, ignore_errors=True)
