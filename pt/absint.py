"""E3 — finite abstract interpreter over the typed tree (THIR facts).

No code of the repository is executed and no solver is used: the "values" are role names and
elements of small finite domains (presence of an Option, a boolean, the relation of two
prefixes).  Unknown inputs are introduced lazily; the first inspection of an unknown forks the
path once per element of its domain (decision-vector DFS, every path is re-interpreted from the
function entry, so the interpreter state is plain mutable Python).

Output: one PathSummary per path: the chosen abstract inputs, the ordered effect events, and the
result value (or panic / cut).
"""
import re
import itertools

from . import facts as F

CRATE = "prefix_trie"
OPTION = "std::option::Option"
RESULT = "std::result::Result"
VEC = "std::vec::Vec"
NODE = "prefix_trie::inner::Node"
TABLE = "prefix_trie::inner::Table"
ORDERING = "std::cmp::Ordering"
CONTROLFLOW = "std::ops::ControlFlow"


# ----------------------------------------------------------------------------- values
class V:
    pass


class IntV(V):
    def __init__(self, n):
        self.n = n

    def __repr__(self):
        return str(self.n)


class BoolV(V):
    def __init__(self, b):
        self.b = b

    def __repr__(self):
        return "true" if self.b else "false"


class UnitV(V):
    def __repr__(self):
        return "()"


class SymV(V):
    """opaque value identified by its provenance (role)"""

    def __init__(self, name, ty=None):
        self.name = name
        self.ty = ty

    def __repr__(self):
        return self.name


class LinV(V):
    """base + k for counters"""

    def __init__(self, base, k):
        self.base = base
        self.k = k

    def __repr__(self):
        return "%s%+d" % (self.base, self.k) if self.k else self.base


class UnkV(V):
    """a value not inspected so far; materialised (possibly forking) on first inspection"""

    def __init__(self, ty, name):
        self.ty = ty
        self.name = name

    def __repr__(self):
        return "?" + self.name


class StructV(V):
    """struct / enum value (also Option, Result, Ordering, ...)"""

    def __init__(self, adt, variant, fields):
        self.adt = adt
        self.variant = variant
        self.fields = fields  # name -> Cell

    def __repr__(self):
        a = self.adt.split("::")[-1]
        if self.adt == OPTION:
            if self.variant == "None":
                return "None"
            return "Some(%r)" % self.fields["0"].value
        if not self.fields:
            return "%s::%s" % (a, self.variant) if a != self.variant else a
        inner = ", ".join("%s: %r" % (k, c.value) if not k.isdigit() else repr(c.value) for k, c in self.fields.items())
        if a == self.variant:
            return "%s{%s}" % (a, inner)
        return "%s::%s{%s}" % (a, self.variant, inner)


class TupleV(V):
    def __init__(self, cells):
        self.cells = cells

    def __repr__(self):
        return "(" + ", ".join(repr(c.value) for c in self.cells) + ")"


class RefV(V):
    def __init__(self, cell, mut=False):
        self.cell = cell
        self.mut = mut

    def __repr__(self):
        return ("&mut " if self.mut else "&") + self.cell.name


class FnV(V):
    def __init__(self, path, node):
        self.path = path
        self.node = node

    def __repr__(self):
        return "fn<%s>" % self.path


class ClosureV(V):
    def __init__(self, path, frame):
        self.path = path
        self.frame = frame

    def __repr__(self):
        return "closure<%s>" % self.path


class VecObj:
    def __init__(self, name, items=None, base=None):
        self.name = name
        self.items = items if items is not None else []
        self.base = base  # None: exactly `items`; str: unknown older content below items
        self.npop = 0


class VecV(V):
    def __init__(self, obj):
        self.obj = obj

    def __repr__(self):
        s = "[" + ", ".join(repr(x) for x in self.obj.items) + "]"
        return (self.obj.base + "++" + s) if self.obj.base else s


class IterV(V):
    """finite iterator over known items (plus `unknown` flag for a foreign iterator)"""

    def __init__(self, items, unknown=None):
        self.items = list(items)
        self.unknown = unknown

    def __repr__(self):
        return "iter" + repr(self.items)


class Arena:
    """abstract node arena of one Table"""

    def __init__(self, name, interp):
        self.name = name
        self.nodes = {}
        self.interp = interp
        self.fresh = 0
        self.cleared = False
        self.pending_len = None
        self.fresh_keys = set()
        self.owned = False

    def stale(self, key):
        return key.startswith("pop(") or key.startswith("len(") or key in self.fresh_keys

    def key_of(self, idx):
        if isinstance(idx, IntV):
            return str(idx.n)
        if isinstance(idx, SymV):
            return idx.name
        if isinstance(idx, LinV):
            return repr(idx)
        raise Unrecognised("arena index is not an index value: %r" % (idx,))

    def node(self, idx):
        key = self.key_of(idx)
        if key not in self.nodes:
            it = self.interp
            nm = "%s[%s]" % (self.name, key)
            fields = {}
            for fname in ("prefix", "value", "left", "right"):
                fty = it.node_field_ty(fname)
                c = Cell(UnkV(fty, nm + "." + fname), nm + "." + fname)
                c.watch = ("node", self, key, fname)
                fields[fname] = c
            if self.cleared and key != "0":
                raise Unrecognised("node %s accessed after arena.clear" % nm)
            sv = StructV(NODE, "Node", fields)
            cell = Cell(sv, nm)
            cell.node_key = (self, key)
            self.nodes[key] = cell
        return self.nodes[key]


class TableV(V):
    def __init__(self, arena):
        self.arena = arena

    def __repr__(self):
        return "table<%s>" % self.arena.name


class ArenaVecV(V):
    """the Vec<Node> inside a table, as returned by as_ref/as_mut"""

    def __init__(self, arena):
        self.arena = arena

    def __repr__(self):
        return "nodes<%s>" % self.arena.name


class Cell:
    __slots__ = ("value", "name", "watch", "node_key")

    def __init__(self, value, name):
        self.value = value
        self.name = name
        self.watch = None
        self.node_key = None

    def __repr__(self):
        return "<%s=%r>" % (self.name, self.value)


# ----------------------------------------------------------------------------- control
class ReturnEx(Exception):
    def __init__(self, value):
        self.value = value


class BreakEx(Exception):
    def __init__(self, label, value):
        self.label = label
        self.value = value


class ContinueEx(Exception):
    def __init__(self, label):
        self.label = label


class PanicEx(Exception):
    def __init__(self, kind, where):
        self.kind = kind
        self.where = where


class CutEx(Exception):
    def __init__(self, why):
        self.why = why


class Unrecognised(Exception):
    pass


class Infeasible(Exception):
    """the chosen combination of abstract inputs contradicts the relation axioms"""
    pass


# ----------------------------------------------------------------------------- prefix relations
# relation of an ordered pair (a, b)
EQ, SUP, SUB, DISJ = "EQ", "SUP", "SUB", "DISJ"   # SUP: a strictly contains b ; SUB: b strictly contains a
REL7 = [("EQ", None, None), ("SUP", None, None), ("SUB", None, None),
        ("DISJ", "lt", "samelen"), ("DISJ", "gt", "samelen"), ("DISJ", "lt", "difflen"), ("DISJ", "gt", "difflen")]


def rel_name(r):
    if r[0] != DISJ:
        return r[0]
    return "DISJ_%s_%s" % (r[1], r[2])


def flip(r):
    if r[0] == EQ:
        return r
    if r[0] == SUP:
        return (SUB, None, None)
    if r[0] == SUB:
        return (SUP, None, None)
    return (DISJ, "gt" if r[1] == "lt" else "lt", r[2])


class RelStore:
    """chosen relations between prefix symbols + closure under the containment axioms
    (worklist propagation: each new fact is composed with the facts adjacent to it)"""

    def __init__(self):
        self.rel = {}   # (a,b) -> relation of (a,b); both orientations are stored
        self.adj = {}   # a -> set of b with a known relation

    def get(self, a, b):
        if a == b:
            return (EQ, None, None)
        return self.rel.get((a, b))

    def base(self, a, b):
        if a == b:
            return EQ
        r = self.rel.get((a, b))
        return r[0] if r else None

    def syms(self):
        return set(self.adj)

    def alias(self, new, old):
        pass

    def _put(self, a, b, r):
        self.rel[(a, b)] = r
        self.rel[(b, a)] = flip(r)
        self.adj.setdefault(a, set()).add(b)
        self.adj.setdefault(b, set()).add(a)

    def set(self, a, b, r):
        """record rel(a,b)=r and everything that follows; raise Infeasible on contradiction"""
        work = [(a, b, r)]
        while work:
            a, b, r = work.pop()
            if a == b:
                if r[0] != EQ:
                    raise Infeasible("rel(%s,%s) != EQ" % (a, b))
                continue
            old = self.rel.get((a, b))
            if old is not None:
                if old[0] != r[0]:
                    raise Infeasible("rel(%s,%s): %s vs %s" % (a, b, old[0], r[0]))
                if old[0] == DISJ:
                    if (old[1] and r[1] and old[1] != r[1]) or (old[2] and r[2] and old[2] != r[2]):
                        raise Infeasible("rel(%s,%s) detail" % (a, b))
                    merged = (DISJ, old[1] or r[1], old[2] or r[2])
                    if merged != old:
                        self._put(a, b, merged)
                continue
            self._put(a, b, r)
            # compose the new fact with its neighbours, in both orientations
            for (x, y, rxy) in ((a, b, r[0]), (b, a, flip(r)[0])):
                for z in list(self.adj.get(y, ())):
                    if z == x:
                        continue
                    ryz = self.rel[(y, z)][0]
                    new = compose(rxy, ryz)
                    cur = self.rel.get((x, z))
                    if new is None:
                        if rxy == SUP and ryz == SUB and cur is not None and cur[0] == DISJ:
                            raise Infeasible("two containers of %s are disjoint" % y)
                        if rxy == SUB and ryz == SUP:
                            pass
                        continue
                    if cur is None:
                        work.append((x, z, (new, None, None)))
                    elif cur[0] != new:
                        raise Infeasible("closure %s %s %s" % (x, y, z))
            # x ⊋ y and z ⊋ y  ⇒  x, z comparable: check the pairs around the contained symbol
            for (x, y) in ((a, b), (b, a)):
                if self.rel[(x, y)][0] in (SUP, EQ):
                    for z in list(self.adj.get(y, ())):
                        if z != x and self.rel[(z, y)][0] in (SUP, EQ):
                            cur = self.rel.get((x, z))
                            if cur is not None and cur[0] == DISJ:
                                raise Infeasible("two containers of %s are disjoint" % y)

    def close(self):
        pass

    def consistent_with(self, a, b, r):
        trial = RelStore()
        trial.rel = dict(self.rel)
        trial.adj = {k: set(v) for k, v in self.adj.items()}
        try:
            trial.set(a, b, r)
            return True
        except Infeasible:
            return False


def compose(rxy, ryz):
    """relation of (x,z) implied by rel(x,y), rel(y,z); None = nothing follows"""
    if rxy == EQ:
        return ryz
    if ryz == EQ:
        return rxy
    if rxy == SUP and ryz == SUP:
        return SUP
    if rxy == SUB and ryz == SUB:
        return SUB
    if rxy == DISJ and ryz == SUP:
        return DISJ      # x ∥ y and y ⊋ z  ⇒  x ∥ z
    if rxy == SUB and ryz == DISJ:
        return DISJ      # y ⊋ x and y ∥ z  ⇒  x ∥ z
    return None


# ----------------------------------------------------------------------------- events
class Event:
    def __init__(self, kind, **kw):
        self.kind = kind
        self.d = kw

    def __repr__(self):
        return "%s(%s)" % (self.kind, ", ".join("%s=%s" % (k, v) for k, v in self.d.items()))

    def __getitem__(self, k):
        return self.d.get(k)


class PathSummary:
    def __init__(self):
        self.inputs = []      # (key, chosen) in order
        self.events = []
        self.result = None    # ('ret', value) | ('panic', kind, where) | ('cut', why) | ('unrecognised', msg)
        self.interp = None
        self.final = {}
        self.links = []
        self.rels = {}
        self.relx = {}
        self.sides = {}

    def input(self, key, default=None):
        for k, v in self.inputs:
            if k == key:
                return v
        return default

    def ev(self, kind):
        return [e for e in self.events if e.kind == kind]

    def __repr__(self):
        return "Path(%s | %s | %s)" % (self.inputs, self.events, self.result)


class Frame:
    def __init__(self, fn_path, parent=None):
        self.fn_path = fn_path
        self.vars = {}
        self.parent = parent  # defining frame for closures


# ----------------------------------------------------------------------------- interpreter
class Interp:
    def __init__(self, facts, decisions, opts=None):
        self.facts = facts
        self.decisions = decisions   # list of chosen indices (prefix); extended with 0s
        self.arity = []              # arity of each decision taken
        self.pos = 0
        self.summary = PathSummary()
        self.summary.interp = self
        self.opts = opts or {}
        self.loop_bound = self.opts.get("loop_bound", 3)
        self.inline_depth = self.opts.get("inline_depth", 8)
        self.depth = 0
        self.rels = RelStore()
        self.arenas = {}
        self.axioms = self.opts.get("axioms", {})
        self.hooks = self.opts.get("hooks", {})
        self.fresh_n = 0
        self.prefix_syms = {}
        self.steps = 0
        self.frames = []
        self.user_cb = 0
        self.child_side = {}
        self.sides = {}
        self.mat = {}
        self.chosen = {}
        if self.opts.get("depth_bound"):
            self.depth_bound = tuple(self.opts["depth_bound"])

    # ---- choices
    def choose(self, key, options):
        assert len(options) >= 1
        # one decision per key and path: asking the same abstract question twice gives the same answer
        if key in self.chosen and self.chosen[key] in options:
            return self.chosen[key]
        v = self.choose_(key, options)
        self.chosen[key] = v
        return v

    def choose_(self, key, options):
        if len(options) == 1:
            self.summary.inputs.append((key, options[0]))
            return options[0]
        for stem, callee in ({} if self.opts.get("opaque_branch_ok") else getattr(self, "opaque_names", {})).items():
            if stem in key:
                # an unknown result may be passed around, but a decision that depends on it would be explored both ways
                # and reported as if the code could really take either: fail closed instead
                raise Unrecognised("the path branches on the result of %s, a foreign function without a model" % callee)
        if self.pos < len(self.decisions):
            i = self.decisions[self.pos]
        else:
            i = 0
            self.decisions.append(0)
        self.arity.append(len(options))
        self.pos += 1
        v = options[i]
        self.summary.inputs.append((key, v))
        return v

    def emit(self, kind, **kw):
        if self.frames:
            kw["fn"] = self.facts.short_of.get(self.frames[-1].fn_path, self.frames[-1].fn_path)
        self.summary.events.append(Event(kind, **kw))

    def link_audit(self):
        """for every link written on this path and still in place at the end: what the facts of the
        path say about parent/child prefixes (strict containment, branch side)"""
        from . import models
        out = []
        last = {}
        for e in self.summary.events:
            if e.kind == "link_write":
                last[(e["table"], e["node"], e["side"])] = e
        for (t, node, side), e in last.items():
            if e["new"] is None:
                continue
            ar = self.arenas.get(t)
            if ar is None:
                continue
            for k_ in (node, e["new"]):
                if k_ not in ar.nodes:
                    ar.node(SymV(k_))
            def pname(key):
                pv = ar.nodes[key].value.fields["prefix"].value
                return pv.name if isinstance(pv, (UnkV, SymV)) else repr(pv)
            pp, cp = self.canon(pname(node)), self.canon(pname(e["new"]))
            rel = self.rels.base(pp, cp)
            sd = models.side_of(self, pp, cp)
            out.append({"table": t, "node": node, "side": side, "child": e["new"], "pp": pp, "cp": cp, "rel": rel,
                        "side_known": sd, "side_ok": (sd is not None and sd == (side == "right")), "fn": e["fn"]})
        return out

    def snapshot(self):
        """final arena state as known on this path ('?' = never inspected)"""
        out = {}
        for name, ar in self.arenas.items():
            t = {}
            for key, cell in ar.nodes.items():
                nd = cell.value
                st = {}
                for fn_ in ("value", "left", "right"):
                    v = nd.fields[fn_].value
                    if isinstance(v, UnkV):
                        st[fn_] = "?"
                    else:
                        pr = self.presence(v)
                        st[fn_] = pr
                        if pr == "S" and fn_ != "value":
                            pv = v.fields["0"].value
                            st[fn_ + "_to"] = repr(pv) if not isinstance(pv, UnkV) else pv.name
                pv = nd.fields["prefix"].value
                st["prefix"] = pv.name if isinstance(pv, (UnkV, SymV)) else repr(pv)
                t[key] = st
            out[name] = t
        return out

    def fresh(self, stem):
        self.fresh_n += 1
        return "%s#%d" % (stem, self.fresh_n)

    # ---- types
    def ty(self, i):
        return self.facts.types[i]

    def node_field_ty(self, fname):
        a = self.facts.adts.get(NODE)
        for f in a["variants"][0]["fields"]:
            if f["name"] == fname:
                return f["ty"]
        raise Unrecognised("Node has no field " + fname)

    def arena(self, name):
        if name not in self.arenas:
            self.arenas[name] = Arena(name, self)
        return self.arenas[name]

    # ---- materialisation of unknowns
    def force(self, cell):
        v = cell.value
        if isinstance(v, UnkV):
            v = self.materialise(v.ty, v.name, cell)
            cell.value = v
        return v

    def materialise(self, tyi, name, cell=None):
        if name in self.mat:
            return self.mat[name]
        v = self.materialise_(tyi, name, cell)
        self.mat[name] = v
        return v

    def materialise_(self, tyi, name, cell=None):
        t = self.ty(tyi)
        k = t["t"]
        if name in self.axioms:
            ax = self.axioms[name]
            if callable(ax):
                r = ax(self, tyi, name)
                if r is not None:
                    return r
        if k == "prim":
            if t["s"] == "bool":
                return BoolV(self.choose("bool:" + name, [False, True]))
            return SymV(name, tyi)
        if k == "param" or k == "alias":
            return SymV(name, tyi)
        if k == "ref":
            inner = Cell(UnkV(t["i"], "*" + name), "*" + name)
            if cell is not None and cell.watch:
                inner.watch = cell.watch
            return RefV(inner, t["m"])
        if k == "tuple":
            return TupleV([Cell(UnkV(x, "%s.%d" % (name, i)), "%s.%d" % (name, i)) for i, x in enumerate(t["a"])])
        if k == "adt":
            p = t["p"]
            if p == OPTION:
                opts_ = ["N", "S"]
                db = getattr(self, "depth_bound", None)
                if db is not None and cell is not None and cell.watch and cell.watch[0] == "node" and cell.watch[3] in ("left", "right"):
                    tbl, root, h = db
                    key = cell.watch[2]
                    if cell.watch[1].name == tbl and key.startswith(root) and key[len(root):].count(".") >= h:
                        opts_ = ["N"]   # bounded sub-tree: nothing below this level
                if db is not None and cell is not None and cell.watch and cell.watch[0] == "node" and cell.watch[3] == "value":
                    tbl, root, h = db
                    key = cell.watch[2]
                    if cell.watch[1].name == tbl and key.startswith(root) and key != root and key in cell.watch[1].nodes:
                        nd = cell.watch[1].nodes[key].value
                        l_, r_ = nd.fields["left"].value, nd.fields["right"].value
                        if self.presence(l_) == "N" and self.presence(r_) == "N":
                            opts_ = ["S"]   # bounded sub-tree: no value-less leaves below the start node
                if cell is not None and cell.watch and cell.watch[0] == "node" and cell.watch[3] == "value" and cell.watch[2].startswith("pop("):
                    opts_ = ["N"]       # free-list axiom (established by C04 R04.3 at every free.push): a recycled slot holds no value
                st = self.choose("opt:" + name, opts_)
                if st == "N":
                    return StructV(OPTION, "None", {})
                inner_ty = t["a"][0]
                pname = name + ".some"
                if cell is not None and cell.watch and cell.watch[0] == "node" and cell.watch[3] in ("left", "right"):
                    # short, readable node keys: <parent key>.l / .r
                    pname = "%s.%s" % (cell.watch[2], cell.watch[3][0])
                pc = Cell(UnkV(inner_ty, pname), pname)
                if cell is not None and cell.watch and cell.watch[0] == "node" and cell.watch[3] in ("left", "right"):
                    # tree axiom (C15, assumed here): a child link leads to a node whose prefix is
                    # strictly covered by the parent's, on the side of the link
                    _, arena, key, side = cell.watch
                    par_p = "%s[%s].prefix" % (arena.name, key)
                    ch_p = "%s[%s].prefix" % (arena.name, pname)
                    self.assume_rel(par_p, ch_p, (SUP, None, None))
                    self.child_side[(par_p, ch_p)] = side
                    self.sides[(self.canon(par_p), ch_p)] = (side == "right")
                    self.emit("link_known", table=arena.name, node=key, side=side, child=pname)
                return StructV(OPTION, "Some", {"0": pc})
            if p == VEC:
                et = self.ty(t["a"][0])
                if et["t"] == "adt" and et["p"] == NODE:
                    ar = self.arena(name.lstrip("*"))
                    ar.owned = True        # a node vector owned by an iterator: the map (and its counter) is gone
                    return ArenaVecV(ar)
                return VecV(VecObj(name, [], base=name))
            if p == TABLE:
                return TableV(self.arena(name.lstrip("*")))
            if p == "std::marker::PhantomData":
                return StructV(p, "PhantomData", {})
            a = self.facts.adts.get(p)
            if a is not None:
                variants = a["variants"]
                if len(variants) == 1:
                    vi = variants[0]
                else:
                    vn = self.choose("variant:" + name, [v["name"] for v in variants])
                    vi = [v for v in variants if v["name"] == vn][0]
                fields = {}
                for f in vi["fields"]:
                    fty = self.subst_field_ty(f["ty"], t)
                    fn = "%s.%s" % (name, f["name"])
                    fc = Cell(UnkV(fty, fn), fn)
                    fc.watch = ("field", p, f["name"])
                    fields[f["name"]] = fc
                return StructV(p, vi["name"], fields)
            if p == ORDERING:
                vn = self.choose("variant:" + name, ["Less", "Equal", "Greater"])
                return StructV(p, vn, {})
            if p == RESULT:
                vn = self.choose("variant:" + name, ["Ok", "Err"])
                ti = t["a"][0] if vn == "Ok" else t["a"][1]
                return StructV(p, vn, {"0": Cell(UnkV(ti, "%s.%s" % (name, vn.lower())), "%s.%s" % (name, vn.lower()))})
            return SymV(name, tyi)
        return SymV(name, tyi)

    def subst_field_ty(self, fty, adt_ty):
        """field types are recorded for the identity instantiation (P, T, L, R...); the abstract
        domains do not depend on the instantiation, so identity types are good enough except for
        telling Option/Vec/Table apart, which is instantiation independent."""
        return fty

    # ---- reading / writing places
    def read(self, cell):
        return self.force(cell)

    def write(self, cell, val, how="assign"):
        w = cell.watch
        if w is not None and w[0] == "node":
            _, arena, key, fname = w
            self.node_write(arena, key, fname, cell, val)
        elif w is not None and w[0] == "field":
            self.field_write(w, cell, val)
        cell.value = val

    def presence(self, v):
        if isinstance(v, StructV) and v.adt == OPTION:
            return "S" if v.variant == "Some" else "N"
        return None

    def node_write(self, arena, key, fname, cell, val):
        if fname == "value":
            if isinstance(cell.value, UnkV) and arena.stale(key):
                # free-list axiom (established by R04.3 at every free.push): a slot on the free list
                # holds no value
                cell.value = StructV(OPTION, "None", {})
            old = self.force(cell)
            nv = self.val_force(val)
            po, pn = self.presence(old), self.presence(nv)
            payload = None
            if pn == "S":
                pv = nv.fields["0"].value
                payload = pv.name if isinstance(pv, (UnkV, SymV)) else repr(pv)
                nv.fields["0"].name = cell.name + ".some"   # the payload now lives in this node
            self.emit("value_write", table=arena.name, node=key, old=po, new=pn, payload=payload, owned=arena.owned)
        elif fname in ("left", "right"):
            new = self.val_force(val)
            if isinstance(cell.value, UnkV) and arena.stale(key):
                # recycled / fresh slot: the old link is garbage, it is overwritten unread
                pn = self.presence(new)
                nt = repr(self.force(new.fields["0"])) if pn == "S" else None
                self.emit("link_write", table=arena.name, node=key, side=fname, old="stale", new=nt)
                return
            old = self.force(cell)
            po, pn = self.presence(old), self.presence(new)
            ot = repr(old.fields["0"].value) if po == "S" else None
            if po == "S":
                ot = repr(self.force(old.fields["0"]))
            nt = repr(self.force(new.fields["0"])) if pn == "S" else None
            self.emit("link_write", table=arena.name, node=key, side=fname, old=ot, new=nt)
        elif fname == "prefix":
            oldv = cell.value
            oldn = oldv.name if isinstance(oldv, (UnkV, SymV)) else repr(oldv)
            newn = val.name if isinstance(val, (UnkV, SymV)) else repr(val)
            rel = None
            if not arena.stale(key) and isinstance(val, (UnkV, SymV)):
                r_ = self.rels.get(self.canon(oldn), self.canon(newn))
                rel = r_[0] if r_ else None
            self.emit("prefix_write", table=arena.name, node=key, new=newn, old=oldn, rel=rel, fresh=arena.stale(key))
            if isinstance(val, SymV):
                # the node's prefix is now this value: later relations go through the new name
                self.rels.alias(val.name, "%s[%s].prefix" % (arena.name, key))

    def field_write(self, w, cell, val):
        _, owner, fname = w
        self.emit("field_write", owner=owner, field=fname, old=repr(cell.value), new=repr(val))

    def val_force(self, v):
        if isinstance(v, UnkV):
            c = Cell(v, v.name)
            return self.force(c)
        return v

    # ---- prefix oracle
    def psym(self, v):
        """name of a prefix-typed value (through references)"""
        v = self.val_force(v)
        while isinstance(v, RefV):
            v = self.force(v.cell)
        if isinstance(v, SymV):
            return v.name
        raise Unrecognised("prefix operand is not an opaque prefix: %r" % (v,))

    def canon(self, a):
        # root axiom (C15, assumed here): slot 0 of every arena holds the zero-length prefix
        if a.endswith("[0].prefix"):
            return "zero()"
        return a

    def relation(self, a, b):
        """choose (lazily) the relation of prefixes named a and b"""
        a, b = self.canon(a), self.canon(b)
        r = self.rels.get(a, b)
        if r is not None and (r[0] != DISJ or (r[1] and r[2])):
            return r
        if r is not None and r[0] == DISJ:
            opts = [x for x in REL7 if x[0] == DISJ and (not r[1] or x[1] == r[1]) and (not r[2] or x[2] == r[2])]
        else:
            opts = [x for x in REL7 if self.rel_allowed(a, b, x)]
        if not opts:
            raise Infeasible("no relation possible for %s,%s" % (a, b))
        ch = self.choose("rel:%s|%s" % (a, b), [rel_name(x) for x in opts])
        r = [x for x in opts if rel_name(x) == ch][0]
        self.rels.set(a, b, r)
        self.rels.close()
        return self.rels.get(a, b)

    def rel_allowed(self, a, b, r):
        # the zero-length prefix covers everything
        if a == "zero()" and r[0] not in (EQ, SUP):
            return False
        if b == "zero()" and r[0] not in (EQ, SUB):
            return False
        # side consistency (S2): if X ⊋ a on side s and the side of b under X is known to differ, a cannot cover b
        for (x, y), sd in list(self.sides.items()):
            if y == a and r[0] in (EQ, SUP) and (x, b) in self.sides and self.sides[(x, b)] != sd \
                    and self.rels.base(x, a) == SUP and self.rels.base(x, b) in (SUP, None):
                return False
            if y == b and r[0] in (EQ, SUB) and (x, a) in self.sides and self.sides[(x, a)] != sd \
                    and self.rels.base(x, b) == SUP and self.rels.base(x, a) in (SUP, None):
                return False
        ax = self.axioms.get("rel")
        if ax is not None:
            ok = ax(self, a, b, r)
            if ok is False:
                return False
        return self.rels.consistent_with(a, b, r)

    def assume_rel(self, a, b, r):
        a, b = self.canon(a), self.canon(b)
        if a == b:
            return
        self.rels.set(a, b, r)
        self.rels.close()

    # ---- running
    def run_fn(self, path, args):
        b = self.facts.bodies.get(path)
        if b is None:
            raise Unrecognised("no body for " + path)
        if self.depth > self.inline_depth:
            raise CutEx("inline depth at " + path)
        fr = Frame(path)
        thir = b["thir"]
        params = thir["params"]
        if len(params) != len(args):
            raise Unrecognised("arity mismatch calling %s" % path)
        self.frames.append(fr)
        self.depth += 1
        try:
            for p, a in zip(params, args):
                if p.get("pat") is not None:
                    if not self.bind(p["pat"], a, fr):
                        raise Unrecognised("refutable parameter pattern")
            try:
                v = self.eval(thir["body"], fr)
            except ReturnEx as r:
                v = r.value
            return v
        finally:
            self.depth -= 1
            self.frames.pop()

    def run_closure(self, clo, args):
        b = self.facts.bodies.get(clo.path)
        if b is None:
            raise Unrecognised("no body for closure " + clo.path)
        fr = Frame(clo.path, parent=clo.frame)
        thir = b["thir"]
        params = thir["params"]
        # first param is the closure itself (no pattern)
        ps = [p for p in params if p.get("pat") is not None]
        if len(ps) != len(args):
            raise Unrecognised("closure arity mismatch %s: %d vs %d" % (clo.path, len(ps), len(args)))
        self.frames.append(fr)
        self.depth += 1
        try:
            for p, a in zip(ps, args):
                if not self.bind(p["pat"], a, fr):
                    raise Unrecognised("refutable closure parameter pattern")
            try:
                return self.eval(thir["body"], fr)
            except ReturnEx as r:
                return r.value
        finally:
            self.depth -= 1
            self.frames.pop()

    # ---- variables
    def lookup(self, fr, vid, name):
        f = fr
        while f is not None:
            if vid in f.vars:
                return f.vars[vid]
            f = f.parent
        raise Unrecognised("unbound variable %s" % name)

    # ---- patterns.  returns True if matched (binding into fr); may fork on unknowns
    def bind(self, pat, val, fr, cell=None):
        k = pat["k"]
        if k == "Wild":
            return True
        if k == "Bind":
            if pat["by_ref"] != "no":
                if cell is None:
                    cell = Cell(val, "tmp")
                v = RefV(cell, pat["by_ref"] == "mut")
                fr.vars[pat["id"]] = Cell(v, pat["name"])
            else:
                fr.vars[pat["id"]] = Cell(val, pat["name"])
            if pat.get("sub"):
                return self.bind(pat["sub"], val, fr, cell)
            return True
        if k == "Deref":
            v = self.val_force(val)
            if not isinstance(v, RefV):
                raise Unrecognised("deref pattern on non-reference %r" % (v,))
            return self.bind(pat["sub"], self.force(v.cell), fr, v.cell)
        if k == "Variant":
            if cell is not None:
                v = self.force(cell)
            else:
                v = self.val_force(val)
            if not isinstance(v, StructV):
                raise Unrecognised("variant pattern on %r" % (v,))
            if v.variant != pat["variant"]:
                return False
            for s in pat["subs"]:
                fc = v.fields.get(s["field"])
                if fc is None:
                    raise Unrecognised("pattern field %s missing" % s["field"])
                if not self.bind_cell(s["pat"], fc, fr):
                    return False
            return True
        if k == "Leaf":
            if cell is not None:
                v = self.force(cell)
            else:
                v = self.val_force(val)
            if isinstance(v, TupleV):
                for s in pat["subs"]:
                    if not self.bind_cell(s["pat"], v.cells[int(s["field"])], fr):
                        return False
                return True
            if isinstance(v, StructV):
                for s in pat["subs"]:
                    if not self.bind_cell(s["pat"], v.fields[s["field"]], fr):
                        return False
                return True
            if not pat["subs"]:
                return True             # `()` and empty struct patterns inspect nothing
            if isinstance(v, SymV):
                # an opaque value taken apart: its components are opaque values of their own
                for s in pat["subs"]:
                    nm = "%s.%s" % (v.name, s["field"])
                    if not self.bind(s["pat"], SymV(nm), fr, Cell(SymV(nm), nm)):
                        return False
                return True
            raise Unrecognised("leaf pattern on %r" % (v,))
        if k == "Or":
            for p in pat["pats"]:
                if self.bind(p, val, fr, cell):
                    return True
            return False
        if k == "Const":
            v = self.val_force(val)
            if isinstance(v, BoolV):
                return str(v).lower() == pat["value"]
            if isinstance(v, IntV):
                return str(v.n) == pat["value"].rstrip("_usize")
            if isinstance(v, (SymV, LinV)):
                # an integer literal pattern on a symbolic scalar: the same decision as `v == literal`
                m = re.match(r"^(-?\d+)(_?[iu](8|16|32|64|128|size))?$", pat["value"])
                if m:
                    r = self.binop("Eq", v, IntV(int(m.group(1))), None)
                    if isinstance(r, BoolV):
                        return r.b
                    return self.truth(r)
            raise Unrecognised("const pattern on %r" % (v,))
        raise Unrecognised("pattern kind " + k)

    def bind_cell(self, pat, cell, fr):
        # avoid forcing when the pattern does not inspect
        if pat["k"] == "Wild":
            return True
        if pat["k"] == "Bind" and not pat.get("sub"):
            if pat["by_ref"] != "no":
                fr.vars[pat["id"]] = Cell(RefV(cell, pat["by_ref"] == "mut"), pat["name"])
            else:
                fr.vars[pat["id"]] = Cell(cell.value, pat["name"])
            return True
        return self.bind(pat, self.force(cell), fr, cell)

    # ---- places
    def is_place(self, n):
        return n["k"] in ("Var", "Field", "Deref", "Index")

    def place(self, n, fr):
        k = n["k"]
        if k == "Var":
            return self.lookup(fr, n["id"], n["name"])
        if k == "Deref":
            v = self.eval(n["e"], fr)
            v = self.val_force(v)
            if isinstance(v, RefV):
                return v.cell
            if isinstance(v, SymV) and v.name.startswith(("str:", "const:")):
                # `&*"literal"` / `&*CONST_STR` (the message of an expect / assert): an opaque constant
                return Cell(SymV("*" + v.name, None), "*" + v.name)
            raise Unrecognised("deref of %r" % (v,))
        if k == "Field":
            base = self.place(n["base"], fr) if self.is_place(n["base"]) else Cell(self.eval(n["base"], fr), "tmp")
            v = self.force(base)
            f = n["field"]
            if isinstance(v, StructV):
                c = v.fields.get(f)
                if c is None:
                    raise Unrecognised("field %s of %r" % (f, v))
                return c
            if isinstance(v, TupleV):
                return v.cells[int(f)]
            if isinstance(v, SymV):
                return Cell(SymV("%s.%s" % (v.name, f), n["ty"]), "%s.%s" % (v.name, f))
            raise Unrecognised("field %s of %r" % (f, v))
        if k == "Index":
            base = self.place(n["base"], fr)
            bv = self.force(base)
            idx = self.val_force(self.eval(n["idx"], fr))
            if isinstance(bv, ArenaVecV):
                self.emit("arena_index", table=bv.arena.name, idx=repr(idx), via="vec")
                return bv.arena.node(idx)
            raise Unrecognised("builtin index of %r" % (bv,))
        raise Unrecognised("not a place: " + k)

    # ---- expressions
    def eval(self, n, fr):
        self.steps += 1
        if self.steps > 200000:
            raise CutEx("step budget")
        k = n["k"]
        m = getattr(self, "e_" + k, None)
        if m is None:
            raise Unrecognised("expression kind " + k)
        return m(n, fr)

    def e_Lit(self, n, fr):
        if "int" in n:
            return IntV(n["int"])
        if "bool" in n:
            return BoolV(n["bool"])
        if "str" in n:
            return SymV("str:" + n["str"])
        return SymV("lit:" + str(n.get("other", n.get("bigint"))))

    def e_Var(self, n, fr):
        # unknowns stay lazy when merely passed around; materialisation is memoised by name, so
        # copies of one unknown always resolve to the same abstract value
        c = self.lookup(fr, n["id"], n["name"])
        return c.value

    def e_Field(self, n, fr):
        c = self.place(n, fr)
        return self.force(c)

    def e_Deref(self, n, fr):
        c = self.place(n, fr)
        return self.force(c)

    def e_Index(self, n, fr):
        return self.force(self.place(n, fr))

    def e_Borrow(self, n, fr):
        e = n["e"]
        if self.is_place(e):
            return RefV(self.place(e, fr), n["mut"])
        v = self.eval(e, fr)
        return RefV(Cell(v, "tmp"), n["mut"])

    def e_RawBorrow(self, n, fr):
        raise Unrecognised("raw borrow")

    def e_Block(self, n, fr):
        try:
            for st in n["stmts"]:
                if st["k"] == "ExprStmt":
                    self.eval(st["e"], fr)
                else:
                    self.stmt_let(st, fr)
            if n.get("expr") is not None:
                return self.eval(n["expr"], fr)
            return UnitV()
        except BreakEx as b:
            if n.get("break_target") and b.label == n.get("hid"):
                return b.value if b.value is not None else UnitV()
            raise

    def stmt_let(self, st, fr):
        init = st.get("init")
        if init is None:
            # declared, assigned later
            self.declare(st["pat"], fr)
            return
        if self.is_place(init) and st["pat"]["k"] in ("Variant", "Leaf", "Deref", "Or"):
            cell = self.place(init, fr)
            ok = self.bind(st["pat"], self.force(cell), fr, cell)
        else:
            v = self.eval(init, fr)
            ok = self.bind(st["pat"], v, fr)
        if not ok:
            if st.get("else"):
                self.eval(st["else"], fr)
                raise Unrecognised("let-else block fell through")
            raise Unrecognised("irrefutable let did not match")

    def declare(self, pat, fr):
        if pat["k"] == "Bind":
            fr.vars[pat["id"]] = Cell(SymV("uninit:" + pat["name"]), pat["name"])

    def e_Tuple(self, n, fr):
        return TupleV([Cell(self.eval(x, fr), "t%d" % i) for i, x in enumerate(n["elems"])])

    def e_Array(self, n, fr):
        return IterV([self.eval(x, fr) for x in n["elems"]])

    def e_Adt(self, n, fr):
        fields = {}
        local = n["adt"].startswith(CRATE + "::")
        for f in n["fields"]:
            c = Cell(self.eval(f["e"], fr), f["name"])
            if local:
                c.watch = ("field", n["adt"], f["name"])
            fields[f["name"]] = c
        if n.get("base") is not None:
            raise Unrecognised("functional record update")
        return StructV(n["adt"], n["variant"], fields)

    def e_Zst(self, n, fr):
        t = self.ty(n["ty"])
        if t["t"] == "adt":
            return StructV(t["p"], t["p"].split("::")[-1], {})
        return SymV("zst:" + t["s"])

    def e_Const(self, n, fr):
        return SymV("const:" + n["path"])

    def e_FnRef(self, n, fr):
        return FnV(n["path"], n)

    def e_Closure(self, n, fr):
        return ClosureV(n["path"], fr)

    def e_Coerce(self, n, fr):
        return self.eval(n["e"], fr)

    def e_Cast(self, n, fr):
        v = self.val_force(self.eval(n["e"], fr))
        if isinstance(v, (IntV, BoolV)):
            return v
        if isinstance(v, LinV):
            v = SymV(repr(v), n["e"].get("ty") if isinstance(n.get("e"), dict) else None)
        if isinstance(v, SymV):
            out = SymV("(%s as %s)" % (v.name, self.facts.short_ty(n["ty"])), n["ty"])
            out.cast_from = v
            h = self.hooks.get("cast")
            if h is not None:
                h(self, v, out, n)
            return out
        if isinstance(v, RefV):
            return v
        raise Unrecognised("cast of %r" % (v,))

    def truth(self, v, why="cond"):
        v = self.val_force(v)
        if isinstance(v, BoolV):
            return v.b
        if isinstance(v, SymV):
            return self.choose("bool:" + v.name, [False, True])
        raise Unrecognised("condition is %r" % (v,))

    def e_If(self, n, fr):
        c = n["cond"]
        if self.cond(c, fr):
            return self.eval(n["then"], fr)
        if n.get("else") is not None:
            return self.eval(n["else"], fr)
        return UnitV()

    def cond(self, c, fr):
        """evaluate a condition that may contain `let` (if-let / let chains)"""
        if c["k"] == "LetCond":
            e = c["e"]
            if self.is_place(e):
                cell = self.place(e, fr)
                return self.bind(c["pat"], self.force(cell), fr, cell)
            v = self.eval(e, fr)
            return self.bind(c["pat"], v, fr)
        if c["k"] == "Logical" and c["op"] == "And":
            return self.cond(c["l"], fr) and self.cond(c["r"], fr)
        return self.truth(self.eval(c, fr))

    def e_LetCond(self, n, fr):
        return BoolV(self.cond(n, fr))

    def e_Logical(self, n, fr):
        l = self.truth(self.eval(n["l"], fr))
        if n["op"] == "And":
            if not l:
                return BoolV(False)
            return BoolV(self.truth(self.eval(n["r"], fr)))
        if l:
            return BoolV(True)
        return BoolV(self.truth(self.eval(n["r"], fr)))

    def e_Unary(self, n, fr):
        v = self.val_force(self.eval(n["e"], fr))
        if n["op"] == "Not":
            if isinstance(v, BoolV):
                return BoolV(not v.b)
            if isinstance(v, SymV):
                t = self.ty(n["ty"])
                if t["s"] == "bool":
                    return BoolV(not self.truth(v))
                return SymV("!(%s)" % v.name, n["ty"])
        if n["op"] == "Neg" and isinstance(v, IntV):
            return IntV(-v.n)
        raise Unrecognised("unary %s on %r" % (n["op"], v))

    def e_Binary(self, n, fr):
        l = self.val_force(self.eval(n["l"], fr))
        r = self.val_force(self.eval(n["r"], fr))
        return self.binop(n["op"], l, r, n)

    def binop(self, op, l, r, n):
        cmp_ops = {"Eq", "Ne", "Lt", "Le", "Gt", "Ge"}
        if isinstance(l, IntV) and isinstance(r, IntV):
            a, b = l.n, r.n
            if op in cmp_ops:
                return BoolV({"Eq": a == b, "Ne": a != b, "Lt": a < b, "Le": a <= b, "Gt": a > b, "Ge": a >= b}[op])
            if op in ("Add", "AddWithOverflow"):
                return IntV(a + b)
            if op in ("Sub",):
                return IntV(a - b)
        if isinstance(l, BoolV) and isinstance(r, BoolV) and op in ("Eq", "Ne", "BitAnd", "BitOr", "BitXor"):
            return BoolV({"Eq": l.b == r.b, "Ne": l.b != r.b, "BitAnd": l.b and r.b, "BitOr": l.b or r.b, "BitXor": l.b != r.b}[op])
        if op in ("Eq", "Ne"):
            ax = self.index_axiom(l, r)
            if ax is not None:
                return BoolV(ax if op == "Eq" else not ax)
        if op in ("Lt", "Le", "Gt", "Ge"):
            ax = self.len_axiom(op, l, r)
            if ax is not None:
                return BoolV(ax)
        # prefix-derived scalars: prefix_len(a) == prefix_len(b), mask(a) < mask(b) ...
        pr = self.hooks.get("binop")
        if pr is not None:
            res = pr(self, op, l, r, n)
            if res is not None:
                return res
        if op in ("Eq", "Ne") and isinstance(l, SymV) and isinstance(r, IntV) and r.n == 0 \
                and l.name.startswith("prefix_len("):
            # length 0  <=>  equal to the zero-length prefix
            a = l.name[len("prefix_len("):-1]
            is_zero = self.relation(self.canon(a), "zero()")[0] == EQ if self.canon(a) != "zero()" else True
            return BoolV(is_zero if op == "Eq" else not is_zero)
        if op in cmp_ops:
            res = self.prefix_cmp(op, l, r)
            if res is not None:
                return res
            if isinstance(l, (LinV, SymV, IntV)) and isinstance(r, (LinV, SymV, IntV)):
                return BoolV(self.choose("bool:(%r %s %r)" % (l, op, r), [False, True]))
        if op in ("Add", "Sub") and isinstance(r, IntV) and isinstance(l, (SymV, LinV)):
            k = r.n if op == "Add" else -r.n
            if isinstance(l, LinV):
                return LinV(l.base, l.k + k) if l.k + k != 0 else SymV(l.base)
            return LinV(l.name, k)
        if isinstance(l, (SymV, IntV, LinV)) and isinstance(r, (SymV, IntV, LinV)):
            return SymV("(%r %s %r)" % (l, op, r), n["ty"] if n else None)
        raise Unrecognised("binary %s on %r, %r" % (op, l, r))

    @staticmethod
    def _slot_role(v):
        """'child' / 'fresh' / None for a value that names an arena slot by its role"""
        if isinstance(v, (SymV, UnkV)):
            nm = v.name.lstrip("?")
            if nm.startswith(("pop(", "len(")) and "#" in nm:
                return "fresh", nm
            if re.match(r"^[A-Za-z0-9_*.()\[\]]+\.(l|r)$", nm):
                return "child", nm
        return None, None

    def index_axiom(self, l, r):
        """equality of two slot indices where the well-formedness invariants decide it (assumed for the pre-state, shown to be
        preserved by C15 / C16): a child or a fresh slot is never the root (slot 0); a node differs from its descendants; a
        slot just taken from the free list / appended to the arena differs from every other named slot.  None = not decided."""
        kl, nl = self._slot_role(l)
        kr, nr = self._slot_role(r)
        for (k, n_, o) in ((kl, nl, r), (kr, nr, l)):
            if k and isinstance(o, IntV) and o.n == 0:
                return False
        if kl and kr:
            if nl == nr:
                return True
            if "fresh" in (kl, kr):
                return False
            if nl.startswith(nr + ".") or nr.startswith(nl + "."):
                return False
        return None

    def len_axiom(self, op, l, r):
        """`slot index  <op>  arena length`: a named slot of an arena (a node the path indexed, a child, a slot taken from the
        free list, the root) lies below the arena's length — indices held in links, stacks, the free list and views stay valid
        because the arena only shrinks in clear(), together with everything that holds indices (C16 R16.3 / C20 R20.4)."""
        def is_len(v):
            return isinstance(v, SymV) and re.match(r"^len\((.*)\)#\d+$", v.name)

        def is_slot(v, arena):
            if isinstance(v, IntV):
                return v.n == 0
            k, nm = self._slot_role(v)
            if k == "child" or (k == "fresh" and nm.startswith("pop(")):
                return True
            if isinstance(v, (SymV, UnkV)):
                ar = self.arenas.get(arena)
                return ar is not None and v.name.lstrip("?") in ar.nodes
            return False
        ml, mr = is_len(l), is_len(r)
        if mr and not ml and is_slot(l, mr.group(1)):          # slot <op> len
            return {"Lt": True, "Le": True, "Gt": False, "Ge": False}[op]
        if ml and not mr and is_slot(r, ml.group(1)):          # len <op> slot
            return {"Lt": False, "Le": False, "Gt": True, "Ge": True}[op]
        return None

    def prefix_cmp(self, op, l, r):
        if isinstance(l, SymV) and isinstance(r, SymV):
            for tag in ("prefix_len", "mask"):
                if l.name.startswith(tag + "(") and r.name.startswith(tag + "("):
                    a, b = l.name[len(tag) + 1:-1], r.name[len(tag) + 1:-1]
                    rel = self.relation(a, b)
                    return self.scalar_cmp(tag, op, rel, a, b)
        return None

    def scalar_cmp(self, tag, op, rel, a, b):
        """truth of  tag(a) <op> tag(b)  under the relation rel of (a,b)"""
        base = rel[0]
        if tag == "prefix_len":
            if base == EQ:
                order = 0
            elif base == SUP:
                order = -1   # a shorter
            elif base == SUB:
                order = 1
            else:
                if rel[2] == "samelen":
                    order = 0
                else:
                    # different length, either way: lazily choose
                    order = self.choose("lenorder:%s|%s" % (a, b), [-1, 1])
        else:  # mask
            if base == EQ:
                order = 0
            elif base == DISJ:
                order = -1 if rel[1] == "lt" else 1
            else:
                # a strictly contains b: mask(a) <= mask(b)
                o = self.choose("maskorder:%s|%s" % (a, b), [0, 1])
                order = -o if base == SUP else o
        return BoolV({"Eq": order == 0, "Ne": order != 0, "Lt": order < 0, "Le": order <= 0,
                      "Gt": order > 0, "Ge": order >= 0}[op])

    def e_Assign(self, n, fr):
        v = self.eval(n["r"], fr)
        c = self.place(n["l"], fr)
        self.write(c, v)
        return UnitV()

    def e_AssignOp(self, n, fr):
        r = self.val_force(self.eval(n["r"], fr))
        c = self.place(n["l"], fr)
        l = self.force(c)
        op = n["op"].replace("Assign", "")
        if c.watch is not None and c.watch[0] == "field" and op in ("Add", "Sub"):
            if not isinstance(r, IntV):
                raise Unrecognised("counter update by non-constant %r" % (r,))
            self.emit("count", owner=c.watch[1], field=c.watch[2], delta=(r.n if op == "Add" else -r.n), line=n.get("line"))
            nv = self.binop(op, l, r, n)
            c.value = nv
            return UnitV()
        self.write(c, self.binop(op, l, r, n))
        return UnitV()

    def e_Return(self, n, fr):
        v = self.eval(n["value"], fr) if n.get("value") is not None else UnitV()
        raise ReturnEx(v)

    def e_Break(self, n, fr):
        v = self.eval(n["value"], fr) if n.get("value") is not None else None
        raise BreakEx(n["label"], v)

    def e_Continue(self, n, fr):
        raise ContinueEx(n["label"])

    def e_Loop(self, n, fr):
        label = n.get("hid")
        it = 0
        free = 0
        while True:
            it += 1
            if it > self.loop_bound or free > 16:
                raise CutEx("loop bound %d at line %s" % (self.loop_bound, n.get("line")))
            self.emit("loop_iter", line=n.get("line"), n=it)
            self.finite_tick = False
            try:
                self.eval(n["body"], fr)
            except BreakEx as b:
                if b.label == label:
                    self.finite_tick = False
                    return b.value if b.value is not None else UnitV()
                raise
            except ContinueEx as c:
                if c.label == label:
                    if self.finite_tick:
                        it -= 1       # an iteration driven by an item of a fully known finite sequence (`for x in vec![..]`)
                        free += 1
                    self.finite_tick = False
                    continue
                raise
            if self.finite_tick:
                it -= 1
                free += 1
            self.finite_tick = False

    def e_Match(self, n, fr):
        scrut = n["scrut"]
        if self.is_place(scrut):
            cell = self.place(scrut, fr)
            val = None
        else:
            val = self.eval(scrut, fr)
            cell = Cell(val, "scrut")
        for arm in n["arms"]:
            pat = arm["pat"]
            if pat["k"] == "Wild":
                ok = True
            elif pat["k"] == "Bind" and not pat.get("sub"):
                ok = self.bind_cell(pat, cell, fr)
            else:
                ok = self.bind(pat, self.force(cell), fr, cell)
            if ok and arm.get("guard") is not None:
                ok = self.cond(arm["guard"], fr)
            if ok:
                return self.eval(arm["body"], fr)
        raise Unrecognised("no match arm applies at line %s" % n.get("line"))

    # ---- calls
    def e_Call(self, n, fr):
        fun = n["fun"]
        if fun["k"] == "FnRef":
            path = n.get("resolved") or fun["path"]
            args = [self.eval(a, fr) for a in n["args"]]
            return self.call(path, fun, args, n, fr)
        fv = self.val_force(self.eval(fun, fr))
        args = [self.eval(a, fr) for a in n["args"]]
        if isinstance(fv, FnV):
            return self.call(fv.path, fv.node, args, n, fr)
        if isinstance(fv, ClosureV):
            return self.run_closure(fv, args)
        raise Unrecognised("call of %r" % (fv,))

    def call(self, path, fnref, args, n, fr):
        from . import models
        h = self.hooks.get("call")
        if h is not None:
            r = h(self, path, fnref, args, n, fr)
            if r is not NotImplemented:
                return r
        m = models.lookup(self, path, fnref)
        if m is not None:
            return m(self, args, n, fnref)
        # a trait method named through the trait (`Self::from_iter` used as a function value): resolve it to the crate's own
        # impl for the self type when there is exactly one
        if isinstance(fnref, dict) and fnref.get("trait") and fnref.get("self_ty") is not None and path not in self.facts.bodies:
            adt = self.facts.adt_of(fnref["self_ty"])
            if adt and adt.startswith(CRATE + "::"):
                cands = [x["path"] for i in self.facts.impls if i.get("trait") == fnref["trait"] and self.facts.adt_of(i["self_ty"]) == adt
                         for x in i["items"] if x["name"] == fnref.get("name")]
                if len(cands) == 1 and cands[0] in self.facts.bodies:
                    path = cands[0]
        dk = fnref.get("defkind", "") if isinstance(fnref, dict) else ""
        if dk.startswith("Ctor"):
            # a tuple-struct / tuple-variant constructor used as a function value (`.map(UnionIndex::OnlyL)`, `.map(Some)`)
            owner = fnref.get("ctor_of", path)
            if "Variant" in dk:
                adt, variant = owner.rsplit("::", 1)
            else:
                adt, variant = owner, owner.rsplit("::", 1)[-1]
            return StructV(adt, variant, {str(i): Cell(a, str(i)) for i, a in enumerate(args)})
        b = self.facts.bodies.get(path)
        if b is not None and b["kind"] == "closure":
            # Fn*::call* resolved to a closure body: go through the closure value (upvars)
            return models.fn_call(self, args, n, fnref)
        if path in self.facts.bodies and path.startswith(CRATE + "::") or (path in self.facts.bodies):
            self.emit("call", callee=self.facts.short_of.get(path, path), line=n.get("line"))
            v = self.run_fn(path, args)
            self.emit("ret", callee=self.facts.short_of.get(path, path))
            return v
        # a foreign function without a model whose arguments give it no mutable access to anything: its result is an
        # unknown of the declared type (over-approximation: every value of that type is explored where it matters)
        if not path.startswith(CRATE + "::") and not path.startswith("<" + CRATE) and n.get("ty") is not None:
            def has_mut(v, d=0):
                v = v if not isinstance(v, UnkV) else v
                if isinstance(v, RefV):
                    return v.mut or has_mut(v.cell.value, d + 1) if d < 4 else v.mut
                if isinstance(v, ClosureV):
                    return True       # a closure may capture anything
                if isinstance(v, (StructV,)):
                    return any(has_mut(c.value, d + 1) for c in v.fields.values()) if d < 4 else False
                if isinstance(v, TupleV):
                    return any(has_mut(c.value, d + 1) for c in v.cells) if d < 4 else False
                if isinstance(v, UnkV):
                    t = self.ty(v.ty)
                    return "&mut" in t["s"] or "&'" in t["s"] and " mut " in t["s"]
                return False
            if not any(has_mut(a) for a in args):
                self.opaque_n = getattr(self, "opaque_n", 0) + 1
                nm = "%s#%d(%s)" % (path.rsplit("::", 1)[-1], self.opaque_n, ", ".join(repr(a)[:40] for a in args))
                if not hasattr(self, "opaque_names"):
                    self.opaque_names = {}
                self.opaque_names["%s#%d(" % (path.rsplit("::", 1)[-1], self.opaque_n)] = path
                self.emit("opaque_call", callee=path, line=n.get("line"))
                return UnkV(n["ty"], nm)
        raise Unrecognised("no model for callee %s (line %s)" % (path, n.get("line")))

    def call_value(self, f, args, n=None):
        """call a function value (closure, fn item or opaque user callback)"""
        f = self.val_force(f)
        while isinstance(f, RefV):
            f = self.force(f.cell)
        if isinstance(f, ClosureV):
            return self.run_closure(f, args)
        if isinstance(f, FnV):
            return self.call(f.path, f.node, args, n or {}, None)
        if isinstance(f, SymV):
            self.user_cb += 1
            self.emit("user_callback", f=f.name, n=self.user_cb, args=[repr(a) for a in args])
            ret_ty = n.get("ty") if n else None
            nm = "cb%d(%s)" % (self.user_cb, f.name)
            if ret_ty is not None:
                c = Cell(UnkV(ret_ty, nm), nm)
                return self.force(c)
            return SymV(nm)
        raise Unrecognised("call of value %r" % (f,))


# ----------------------------------------------------------------------------- exploration
def param_names(facts, path):
    b = facts.bodies[path]
    names = []
    for i, p in enumerate(b["thir"]["params"]):
        pat = p.get("pat")
        if pat is None:
            continue
        if pat["k"] == "Bind":
            names.append(pat["name"])
        else:
            names.append("arg%d" % i)
    return names


def default_args(facts, path):
    """argument factory: every parameter is an unknown of its declared type, named after the
    parameter"""
    def make(it):
        b = facts.bodies[path]
        out = []
        for i, p in enumerate(b["thir"]["params"]):
            pat = p.get("pat")
            if pat is None:
                continue
            nm = pat["name"] if pat["k"] == "Bind" else "arg%d" % i
            c = Cell(UnkV(p["ty"], nm), nm)
            out.append(it.force(c))
        return out
    return make


def explore(facts, entry, make_args=None, opts=None, max_paths=20000, program=None):
    """enumerate all paths.  Either `entry` (full def path) with make_args(interp) -> argument
    values, or `program(interp) -> value` (a composite of several calls).  Returns PathSummary list."""
    out = []
    decisions = []
    n = 0
    while True:
        it = Interp(facts, list(decisions), opts)
        s = it.summary
        try:
            if program is not None:
                v = program(it)
            else:
                args = make_args(it)
                v = it.run_fn(entry, args)
            s.result = ("ret", v)
        except PanicEx as p:
            s.result = ("panic", p.kind, p.where)
        except CutEx as c:
            s.result = ("cut", c.why)
        except Infeasible as e:
            s.result = ("infeasible", str(e))
        except Unrecognised as u:
            s.result = ("unrecognised", str(u))
        except (BreakEx, ContinueEx) as b:
            s.result = ("unrecognised", "stray break/continue")
        except RecursionError:
            s.result = ("cut", "recursion")
        try:
            s.final = it.snapshot()
            s.links = it.link_audit()
            s.rels = {k: v[0] for k, v in it.rels.rel.items()}
            s.sides = dict(it.sides)
            s.relx = dict(it.rels.rel)
            s.interp = None
        except Exception as ex:  # snapshot is best effort
            s.final = {"error": str(ex)}
        out.append(s)
        n += 1
        if n >= max_paths:
            s2 = PathSummary()
            s2.result = ("unrecognised", "path budget %d exhausted" % max_paths)
            out.append(s2)
            break
        # next decision vector
        dec = it.decisions[:it.pos]
        ar = it.arity
        i = len(dec) - 1
        while i >= 0 and dec[i] + 1 >= ar[i]:
            i -= 1
        if i < 0:
            break
        decisions = dec[:i] + [dec[i] + 1]
    return out


def unknown(it, ty, name):
    """an unknown input of the given type index"""
    c = Cell(UnkV(ty, name), name)
    return it.force(c)
