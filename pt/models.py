"""Abstract semantics of the std functions the library calls, of the arena primitives of
`inner::Table`, and of the `Prefix` trait on an abstract prefix type (answered from the relation
oracle).  One line of reason per entry; everything not listed is UNRECOGNISED (fail closed).
"""
from .absint import (ArenaVecV, BoolV, Cell, ClosureV, CutEx, FnV, IntV, IterV, LinV, PanicEx, RefV, StructV,
                     SymV, TableV, TupleV, UnitV, UnkV, Unrecognised, VecObj, VecV, OPTION, RESULT, ORDERING,
                     CONTROLFLOW, NODE, EQ, SUP, SUB, DISJ)

MODELS = {}
MODEL_DOC = {}


def model(*paths, doc=""):
    def deco(f):
        for p in paths:
            MODELS[p] = f
            MODEL_DOC[p] = doc or (f.__doc__ or "").strip()
        return f
    return deco


def lookup(it, path, fnref):
    m = MODELS.get(path)
    if m is not None:
        return m
    if path == getattr(it.facts, "to_right_path", None) and path is not None:
        return MODELS["prefix_trie::to_right"]
    # Prefix trait methods on an abstract prefix type (call not resolved to an impl)
    if path.startswith("prefix_trie::prefix::Prefix::"):
        name = path.rsplit("::", 1)[1]
        st = fnref.get("self_ty")
        if st is not None and it.ty(st)["t"] in ("param", "alias"):
            return PREFIX_ORACLE.get(name)
    # `next` of a std iterator type (vec::IntoIter, slice::Iter, option::IntoIter, Chain, Map, Rev ...) resolved to its impl:
    # the interpreter represents all of them by one finite / unknown iterator value
    if path.endswith(" as std::iter::Iterator>::next") and path.startswith(("<std::", "<core::", "<alloc::")):
        return MODELS.get("std::iter::Iterator::next")
    return None


def some(v, name="some"):
    return StructV(OPTION, "Some", {"0": Cell(v, name)})


def none():
    return StructV(OPTION, "None", {})


def deref(it, v):
    v = it.val_force(v)
    if not isinstance(v, RefV):
        raise Unrecognised("expected a reference, got %r" % (v,))
    return v.cell


def opt_of(it, cell):
    v = it.force(cell)
    if isinstance(v, StructV) and v.adt == OPTION:
        return v
    raise Unrecognised("expected an Option in %s, got %r" % (cell.name, v))


# ------------------------------------------------------------------ Option
@model("std::option::Option::<T>::is_some", doc="reads presence")
def opt_is_some(it, args, n, f):
    return BoolV(opt_of(it, deref(it, args[0])).variant == "Some")


@model("std::option::Option::<T>::is_none", doc="reads presence")
def opt_is_none(it, args, n, f):
    return BoolV(opt_of(it, deref(it, args[0])).variant == "None")


@model("std::option::Option::<T>::as_ref", doc="Some(&payload) / None; no effect")
def opt_as_ref(it, args, n, f):
    c = deref(it, args[0])
    o = opt_of(it, c)
    if o.variant == "None":
        return none()
    return some(RefV(o.fields["0"], False))


@model("std::option::Option::<T>::as_mut", doc="Some(&mut payload) / None; no presence change")
def opt_as_mut(it, args, n, f):
    c = deref(it, args[0])
    o = opt_of(it, c)
    if o.variant == "None":
        return none()
    return some(RefV(o.fields["0"], True))


@model("std::option::Option::<T>::take", doc="returns the old value, leaves None")
def opt_take(it, args, n, f):
    c = deref(it, args[0])
    o = opt_of(it, c)
    it.write(c, none())
    return o


@model("std::option::Option::<T>::replace", doc="returns the old value, leaves Some(new)")
def opt_replace(it, args, n, f):
    c = deref(it, args[0])
    o = opt_of(it, c)
    it.write(c, some(args[1]))
    return o


@model("std::option::Option::<T>::get_or_insert", doc="N→S(new) only when empty; returns &mut payload")
def opt_get_or_insert(it, args, n, f):
    c = deref(it, args[0])
    o = opt_of(it, c)
    if o.variant == "None":
        o = some(args[1])
        it.write(c, o)
    return RefV(o.fields["0"], True)


@model("std::option::Option::<T>::get_or_insert_with", doc="closure is called only when empty")
def opt_get_or_insert_with(it, args, n, f):
    c = deref(it, args[0])
    o = opt_of(it, c)
    if o.variant == "None":
        v = it.call_value(args[1], [], {"ty": None})
        o = some(v)
        it.write(c, o)
    return RefV(o.fields["0"], True)


@model("std::option::Option::<T>::unwrap", doc="payload, or panic on None")
def opt_unwrap(it, args, n, f):
    o = it.val_force(args[0])
    if not (isinstance(o, StructV) and o.adt == OPTION):
        raise Unrecognised("unwrap of %r" % (o,))
    if o.variant == "None":
        raise PanicEx("unwrap_none", n.get("line"))
    return it.force(o.fields["0"])


@model("std::option::Option::<T>::or", doc="self if Some else other")
def opt_or(it, args, n, f):
    o = it.val_force(args[0])
    if o.variant == "Some":
        return o
    return args[1]


@model("std::option::Option::<T>::map", doc="applies the function to the payload")
def opt_map(it, args, n, f):
    o = it.val_force(args[0])
    if not (isinstance(o, StructV) and o.adt == OPTION):
        raise Unrecognised("map of %r" % (o,))
    if o.variant == "None":
        return none()
    v = it.call_value(args[1], [it.force(o.fields["0"])], {"ty": None})
    return some(v)


@model("std::option::Option::<T>::unwrap_or_else", doc="payload or closure result")
def opt_unwrap_or_else(it, args, n, f):
    o = it.val_force(args[0])
    if isinstance(o, StructV) and o.adt == OPTION:
        if o.variant == "Some":
            return it.force(o.fields["0"])
        return it.call_value(args[1], [], n)
    raise Unrecognised("unwrap_or_else of %r" % (o,))


@model("core::bool::<impl bool>::then_some", doc="Some(v) if true else None")
def bool_then_some(it, args, n, f):
    b = it.truth(args[0])
    return some(args[1]) if b else none()


@model("<std::option::Option<T> as std::ops::Try>::branch", doc="Some(v)→Continue(v), None→Break(None)")
def opt_branch(it, args, n, f):
    o = it.val_force(args[0])
    if not (isinstance(o, StructV) and o.adt == OPTION):
        raise Unrecognised("? on %r" % (o,))
    if o.variant == "Some":
        return StructV(CONTROLFLOW, "Continue", {"0": o.fields["0"]})
    return StructV(CONTROLFLOW, "Break", {"0": Cell(none(), "residual")})


@model("<std::option::Option<T> as std::ops::FromResidual<std::option::Option<std::convert::Infallible>>>::from_residual",
       doc="None")
def opt_from_residual(it, args, n, f):
    return none()


@model("<std::option::Option<T> as std::clone::Clone>::clone", doc="copy of the abstract value")
def opt_clone(it, args, n, f):
    return it.force(deref(it, args[0]))


# ------------------------------------------------------------------ Result
@model("std::result::Result::<T, E>::ok", doc="Ok(v)→Some(v), Err→None")
def res_ok(it, args, n, f):
    r = it.val_force(args[0])
    if isinstance(r, StructV) and r.adt == RESULT:
        if r.variant == "Ok":
            return some(it.force(r.fields["0"]))
        return none()
    raise Unrecognised("ok() of %r" % (r,))


@model("std::result::Result::<T, E>::unwrap", doc="payload or panic")
def res_unwrap(it, args, n, f):
    r = it.val_force(args[0])
    if isinstance(r, StructV) and r.adt == RESULT:
        if r.variant == "Ok":
            return it.force(r.fields["0"])
        raise PanicEx("unwrap_err", n.get("line"))
    if isinstance(r, SymV):
        return SymV("unwrap(%s)" % r.name)
    raise Unrecognised("unwrap of %r" % (r,))


# ------------------------------------------------------------------ mem / clone / default
@model("std::mem::replace", doc="swap in the new value, return the old")
def mem_replace(it, args, n, f):
    c = deref(it, args[0])
    old = it.force(c)
    it.write(c, args[1])
    return old


@model("std::clone::impls::<impl std::clone::Clone for usize>::clone",
       "std::clone::impls::<impl std::clone::Clone for &T>::clone", doc="copy")
def clone_copy(it, args, n, f):
    return it.force(deref(it, args[0]))


@model("std::clone::Clone::clone", doc="clone of an opaque value: same role")
def clone_generic(it, args, n, f):
    return it.force(deref(it, args[0]))


@model("std::default::Default::default", doc="opaque default value")
def default_generic(it, args, n, f):
    return SymV("default()")


# ------------------------------------------------------------------ Vec / iterators
def vec_of(it, v):
    v = it.val_force(v)
    while isinstance(v, RefV):
        v = it.force(v.cell)
    return v


def vec_owner(it, obj):
    return obj.name


@model("std::vec::Vec::<T>::with_capacity", doc="empty vector (capacity is not modelled)")
def vec_with_capacity(it, args, n, f):
    return VecV(VecObj(it.fresh("vec"), [], None))


@model("std::vec::Vec::<T>::new", doc="empty vector")
def vec_new(it, args, n, f):
    return VecV(VecObj(it.fresh("vec"), [], None))


@model("std::boxed::Box::<T>::new_uninit", doc="part of vec![..]")
def box_new_uninit(it, args, n, f):
    return SymV("box")


@model("alloc::intrinsics::write_box_via_move", doc="part of vec![..]: yields the array")
def write_box(it, args, n, f):
    return args[1]


@model("std::boxed::box_assume_init_into_vec_unsafe", doc="vec![a, b, ..]")
def box_into_vec(it, args, n, f):
    a = it.val_force(args[0])
    if isinstance(a, IterV):
        return VecV(VecObj(it.fresh("vec"), list(a.items), None))
    raise Unrecognised("vec! of %r" % (a,))


def show(it, v):
    """printable form of a pushed / popped item: plain index unknowns are resolved (no fork)"""
    if isinstance(v, UnkV) and it.ty(v.ty)["t"] == "prim" and it.ty(v.ty)["s"] != "bool":
        v = it.val_force(v)
    return repr(v)


def node_state(it, idx):
    """snapshot of the arena slot an index value denotes (for pushes of indices): presence of its
    value and of its links as known on this path ('?' = not inspected)"""
    idx = it.val_force(idx)
    if not isinstance(idx, (SymV, IntV)):
        return None
    out = {}
    for name, ar in it.arenas.items():
        try:
            key = ar.key_of(idx)
        except Unrecognised:
            continue
        if key in ar.nodes:
            nd = ar.nodes[key].value
            st = {}
            for fn_ in ("value", "left", "right"):
                v = nd.fields[fn_].value
                st[fn_] = it.presence(v) if not isinstance(v, UnkV) else "?"
            out[name] = st
    return out or None


@model("std::vec::Vec::<T, A>::push", doc="append")
def vec_push(it, args, n, f):
    v = vec_of(it, args[0])
    if isinstance(v, VecV):
        v.obj.items.append(args[1])
        it.emit("vec_push", vec=v.obj.name, item=show(it, args[1]), line=n.get("line"), state=node_state(it, args[1]), val=args[1])
        return UnitV()
    if isinstance(v, ArenaVecV):
        node = it.val_force(args[1])
        key = v.arena.pending_len
        if key is None:
            # `push(..); len() - 1`: the new slot's index is named now, the following len() is this index + 1
            v.arena.fresh += 1
            key = "len(%s)#%d" % (v.arena.name, v.arena.fresh)
            it.emit("arena_len", table=v.arena.name, key=key)
            v.arena.last_pushed = key
        it.emit("arena_push", table=v.arena.name, key=key)
        v.arena.fresh_keys.add(key)
        cell = v.arena.node(SymV(key))
        # overwrite all four fields of the new slot
        for fn_, c in node.fields.items():
            tgt = it.force(cell).fields[fn_]
            tgt.value = StructV(OPTION, "None", {}) if fn_ != "prefix" else SymV("uninit")
            it.write(tgt, c.value)
        v.arena.pending_len = None
        return UnitV()
    raise Unrecognised("push on %r" % (v,))


@model("std::vec::Vec::<T, A>::pop", doc="last element or None; unknown older content forks")
def vec_pop(it, args, n, f):
    v = vec_of(it, args[0])
    if not isinstance(v, VecV):
        raise Unrecognised("pop on %r" % (v,))
    o = v.obj
    if o.items:
        x = o.items.pop()
        it.emit("vec_pop", vec=o.name, item=show(it, x), known=True)
        return some(x)
    if o.base is None:
        it.emit("vec_pop", vec=o.name, item=None, known=True)
        return none()
    o.npop += 1
    st = it.choose("pop:%s#%d" % (o.base, o.npop), ["N", "S"])
    if st == "N":
        o.base = None
        it.emit("vec_pop", vec=o.name, item=None, known=False)
        return none()
    nm = "pop(%s)#%d" % (o.base, o.npop)
    elem_ty = it.ty(n["ty"])["a"][0] if n.get("ty") is not None else None
    c = Cell(UnkV(elem_ty, nm), nm) if elem_ty is not None else Cell(SymV(nm), nm)
    x = it.force(c)
    it.emit("vec_pop", vec=o.name, item=repr(x), known=False)
    return some(x)


@model("std::vec::Vec::<T, A>::insert", doc="insert at a constant position")
def vec_insert(it, args, n, f):
    v = vec_of(it, args[0])
    i = it.val_force(args[1])
    if isinstance(v, VecV) and isinstance(i, IntV) and v.obj.base is None:
        v.obj.items.insert(i.n, args[2])
        return UnitV()
    raise Unrecognised("Vec::insert on %r at %r" % (v, i))


@model("std::vec::Vec::<T, A>::clear", doc="drop all elements")
def vec_clear(it, args, n, f):
    v = vec_of(it, args[0])
    if isinstance(v, VecV):
        v.obj.items = []
        v.obj.base = None
        it.emit("vec_clear", vec=v.obj.name)
        return UnitV()
    if isinstance(v, ArenaVecV):
        it.emit("arena_clear", table=v.arena.name)
        v.arena.nodes = {}
        v.arena.cleared = True
        v.arena.pending_len = "0"
        return UnitV()
    raise Unrecognised("clear on %r" % (v,))


@model("std::vec::Vec::<T, A>::len", doc="length (opaque); for the arena: the index of the next slot")
def vec_len(it, args, n, f):
    v = vec_of(it, args[0])
    if isinstance(v, ArenaVecV):
        lp = getattr(v.arena, "last_pushed", None)
        if lp is not None:
            v.arena.last_pushed = None
            return LinV(lp, 1)
        v.arena.fresh += 1
        key = "len(%s)#%d" % (v.arena.name, v.arena.fresh)
        v.arena.pending_len = key
        it.emit("arena_len", table=v.arena.name, key=key)
        return SymV(key)
    if isinstance(v, VecV):
        if v.obj.base is None:
            return IntV(len(v.obj.items))        # a vector whose whole content is known
        return SymV("len(%s)" % v.obj.name)
    raise Unrecognised("len on %r" % (v,))


@model("<std::vec::Vec<T, A> as std::iter::Extend<T>>::extend", doc="append all items of a finite iterator, in order")
def vec_extend(it, args, n, f):
    v = vec_of(it, args[0])
    src = to_iter(it, args[1])
    if not isinstance(v, VecV):
        raise Unrecognised("extend on %r" % (v,))
    for x in src.items:
        v.obj.items.append(x)
        it.emit("vec_push", vec=v.obj.name, item=show(it, x), line=n.get("line"), val=x)
    return UnitV()


def to_iter(it, v):
    v = it.val_force(v)
    if isinstance(v, IterV):
        return v
    if isinstance(v, VecV):
        if v.obj.base is not None:
            raise Unrecognised("iteration over a vector with unknown content")
        return IterV(v.obj.items)
    if isinstance(v, StructV) and v.adt == OPTION:
        return IterV([it.force(v.fields["0"])] if v.variant == "Some" else [])
    if isinstance(v, SymV):
        return IterV([], unknown=v.name)       # a foreign / generic iterable: unknown items
    raise Unrecognised("not iterable: %r" % (v,))


@model("std::iter::IntoIterator::into_iter", "<std::vec::Vec<T, A> as std::iter::IntoIterator>::into_iter",
       "<std::option::Option<T> as std::iter::IntoIterator>::into_iter", "<[T; N] as std::iter::IntoIterator>::into_iter",
       "std::iter::Iterator::chain", doc="finite iterator over known items")
def into_iter(it, args, n, f):
    if len(args) == 2:      # chain
        return IterV(to_iter(it, args[0]).items + to_iter(it, args[1]).items)
    return to_iter(it, args[0])


@model("std::iter::Iterator::rev", doc="reversed finite iterator")
def iter_rev(it, args, n, f):
    return IterV(list(reversed(to_iter(it, args[0]).items)))


@model("std::iter::once", doc="one item")
def iter_once(it, args, n, f):
    return IterV([args[0]])


@model("std::iter::Iterator::map", doc="apply the function to every item, in order")
def iter_map(it, args, n, f):
    src = to_iter(it, args[0])
    return IterV([it.call_value(args[1], [x], {"ty": None}) for x in src.items])


@model("std::iter::Iterator::collect", "<std::vec::Vec<T> as std::iter::FromIterator<T>>::from_iter",
       doc="vector of the items, in order")
def iter_collect(it, args, n, f):
    v = it.val_force(args[0])
    ts = it.ty(n["ty"])["s"] if n.get("ty") is not None else ""
    if isinstance(v, StructV) and v.adt != OPTION and not ts.replace("std::vec::", "").startswith("Vec<"):
        # a whole-collection walker collected into a foreign container (HashMap / HashSet / ...): the sequence as a whole
        d = walker_desc(it, v)
        it.emit("collect", src=d)
        return SymV("collected(%s)" % d)
    src = to_iter(it, args[0])
    return VecV(VecObj(it.fresh("vec"), list(src.items), None))


# ------------------------------------------------------------------ closures as trait calls
@model("std::ops::FnMut::call_mut", "std::ops::FnOnce::call_once", "std::ops::Fn::call",
       doc="call of a closure value or of a user callback (generic Fn* parameter)")
def fn_call(it, args, n, f):
    tup = it.val_force(args[1])
    if not isinstance(tup, TupleV):
        raise Unrecognised("closure call with non-tuple args")
    return it.call_value(args[0], [c.value for c in tup.cells], n)


# ------------------------------------------------------------------ panics
@model("core::panicking::panic", "std::rt::panic_fmt", "core::panicking::panic_fmt",
       "std::intrinsics::unreachable", doc="panic")
def panic(it, args, n, f):
    exp = n.get("exp") or []
    raise PanicEx("panic:" + (exp[0] if exp else "explicit"), n.get("line"))


# ------------------------------------------------------------------ arena primitives (inner::Table)
def table_of(it, v):
    v = it.val_force(v)
    while isinstance(v, RefV):
        v = it.force(v.cell)
    if isinstance(v, TableV):
        return v
    raise Unrecognised("expected a table, got %r" % (v,))


@model("<prefix_trie::inner::Table<P, T> as std::ops::Index<usize>>::index", doc="&arena[idx] (bounds-checked)")
def table_index(it, args, n, f):
    t = table_of(it, args[0])
    idx = it.val_force(args[1])
    it.emit("arena_index", table=t.arena.name, idx=repr(idx), via="index", line=n.get("line"))
    return RefV(t.arena.node(idx), False)


@model("<prefix_trie::inner::Table<P, T> as std::ops::IndexMut<usize>>::index_mut", doc="&mut arena[idx]")
def table_index_mut(it, args, n, f):
    t = table_of(it, args[0])
    idx = it.val_force(args[1])
    it.emit("arena_index", table=t.arena.name, idx=repr(idx), via="index_mut", line=n.get("line"))
    return RefV(t.arena.node(idx), True)


@model("prefix_trie::inner::Table::<P, T>::get_mut", doc="unsafe &mut arena[idx] through &Table")
def table_get_mut(it, args, n, f):
    t = table_of(it, args[0])
    idx = it.val_force(args[1])
    it.emit("arena_index", table=t.arena.name, idx=repr(idx), via="get_mut", line=n.get("line"))
    it.emit("get_mut", table=t.arena.name, idx=repr(idx), line=n.get("line"))
    return RefV(t.arena.node(idx), True)


@model("<prefix_trie::inner::Table<P, T> as std::convert::AsRef<std::vec::Vec<prefix_trie::inner::Node<P, T>>>>::as_ref",
       "<prefix_trie::inner::Table<P, T> as std::convert::AsMut<std::vec::Vec<prefix_trie::inner::Node<P, T>>>>::as_mut",
       doc="the node vector itself")
def table_as_vec(it, args, n, f):
    t = table_of(it, args[0])
    if not hasattr(t.arena, "pending_len"):
        t.arena.pending_len = None
    return RefV(Cell(ArenaVecV(t.arena), "nodes<%s>" % t.arena.name), True)


@model("prefix_trie::inner::Table::<P, T>::into_inner", doc="consumes the table, yields the node vector")
def table_into_inner(it, args, n, f):
    t = table_of(it, args[0])
    return ArenaVecV(t.arena)


@model("<std::vec::Vec<T, A> as std::ops::IndexMut<I>>::index_mut", "<std::vec::Vec<T, A> as std::ops::Index<I>>::index",
       doc="element of an owned node vector (IntoIter)")
def vec_index(it, args, n, f):
    v = vec_of(it, args[0])
    idx = it.val_force(args[1])
    if isinstance(v, ArenaVecV):
        it.emit("arena_index", table=v.arena.name, idx=repr(idx), via="vec", line=n.get("line"))
        return RefV(v.arena.node(idx), True)
    raise Unrecognised("index of %r" % (v,))


# ------------------------------------------------------------------ Prefix on an abstract prefix type
def p_eq(it, args, n, f):
    a, b = it.psym(args[0]), it.psym(args[1])
    return BoolV(it.relation(a, b)[0] == EQ)


def p_contains(it, args, n, f):
    a, b = it.psym(args[0]), it.psym(args[1])
    return BoolV(it.relation(a, b)[0] in (EQ, SUP))


def p_prefix_len(it, args, n, f):
    a = it.psym(args[0])
    ax = it.axioms.get("prefix_len")
    if ax is not None:
        r = ax(it, a)
        if r is not None:
            return r
    return SymV("prefix_len(%s)" % a)


def p_mask(it, args, n, f):
    return SymV("mask(%s)" % it.psym(args[0]))


def p_repr(it, args, n, f):
    return SymV("repr(%s)" % it.psym(args[0]))


def p_is_bit_set(it, args, n, f):
    a = it.psym(args[0])
    bit = it.val_force(args[1])
    key = "bit:%s@%r" % (a, bit)
    # is_bit_set(child, prefix_len(parent)) is the branch side: meaningful only if parent ⊋ child
    return BoolV(it.choose(key, [False, True]))


def p_lcp(it, args, n, f):
    a, b = it.canon(it.psym(args[0])), it.canon(it.psym(args[1]))
    nm = "lcp(%s,%s)" % (a, b)
    ra = it.relation(a, b)
    # C17 (assumed): the common prefix covers both operands, strictly when they are disjoint;
    # a prefix that strictly covers both on the same side strictly covers their common prefix
    if ra[0] == DISJ:
        it.assume_rel(nm, a, (SUP, None, None))
        it.assume_rel(nm, b, (SUP, None, None))
        for x in sorted(it.rels.syms()):
            if x in (a, b, nm):
                continue
            if it.rels.base(x, a) == SUP and it.rels.base(x, b) == SUP:
                sa, sb = side_of(it, x, a), side_of(it, x, b)
                if sa is not None and sb is not None:
                    if sa == sb:
                        it.assume_rel(x, nm, (SUP, None, None))
                        it.sides[(x, nm)] = sa
                    else:
                        it.assume_rel(x, nm, (EQ, None, None))
    elif ra[0] in (EQ, SUP):
        it.assume_rel(nm, a, (EQ, None, None))
    else:
        it.assume_rel(nm, b, (EQ, None, None))
    return SymV(nm)


def p_zero(it, args, n, f):
    return SymV("zero()")


def p_from_repr_len(it, args, n, f):
    """a prefix built from a representation and a length: *some* prefix, named by its operands (the same operands name the
    same prefix); its relation to every other prefix is unconstrained and chosen lazily by the relation oracle — a sound
    over-approximation (the bit-vector meaning is C17's business), so code whose answer depends on it is explored under every
    relation instead of failing closed"""
    r, l = it.val_force(args[0]), it.val_force(args[1])
    return SymV("from_repr_len(%r,%r)" % (r, l))


def unresolved_view(it, args, n, f):
    """`impl AsView` / `impl AsViewMut` operand of a set operation: an unknown view of its own"""
    a = it.val_force(args[0])
    if isinstance(a, SymV):
        nm = "view(%s)" % a.name
        c = Cell(UnkV(n["ty"], nm), nm)
        return it.force(c)
    raise Unrecognised("view() of %r" % (a,))


MODELS["prefix_trie::trieview::AsView::view"] = unresolved_view
MODELS["prefix_trie::trieview::AsViewMut::view_mut"] = unresolved_view
MODEL_DOC["prefix_trie::trieview::AsView::view"] = "unknown view (operand given as impl AsView)"
MODEL_DOC["prefix_trie::trieview::AsViewMut::view_mut"] = "unknown view (operand given as impl AsViewMut)"

PREFIX_ORACLE = {
    "eq": p_eq, "contains": p_contains, "prefix_len": p_prefix_len, "mask": p_mask, "repr": p_repr,
    "is_bit_set": p_is_bit_set, "longest_common_prefix": p_lcp, "zero": p_zero, "from_repr_len": p_from_repr_len,
}


def side_of(it, a, b):
    """branch side of b under a, if the facts of this path determine it (a must strictly contain b
    for the side to mean anything).  Rules (bit-vector facts of C17, assumed here):
      S1  a known child link gives the side;
      S2  to_right(a,u) = to_right(a,v) when a ⊋ u, a ⊋ v and u, v are comparable;
      S3  x, y disjoint: to_right(lcp(x,y), y) = !to_right(lcp(x,y), x)."""
    a, b = it.canon(a), it.canon(b)
    if (a, b) in it.sides:
        return it.sides[(a, b)]
    for (x, y), sd in list(it.sides.items()):
        if x != a:
            continue
        if it.rels.base(a, y) == SUP and it.rels.base(a, b) == SUP and it.rels.base(y, b) in (EQ, SUP, SUB):
            return sd
    if a.startswith("lcp("):
        for (x, y), sd in list(it.sides.items()):
            if x == a and y != b and a == "lcp(%s,%s)" % (y, b) or (x == a and y != b and a == "lcp(%s,%s)" % (b, y)):
                if it.rels.base(y, b) == DISJ:
                    return not sd
    return None


@model("prefix_trie::to_right", doc="branch side of child under parent: one lazy boolean per ordered pair, consistent with S1-S3")
def to_right(it, args, n, f):
    a, b = it.canon(it.psym(args[0])), it.canon(it.psym(args[1]))
    sd = side_of(it, a, b)
    if sd is None:
        sd = it.choose("to_right:%s|%s" % (a, b), [False, True])
    it.sides[(a, b)] = sd
    return BoolV(sd)


@model("std::cmp::Ord::cmp", doc="ordering of two masks, from the relation oracle")
def ord_cmp(it, args, n, f):
    l = it.force(deref(it, args[0]))
    r = it.force(deref(it, args[1]))
    lt = it.prefix_cmp("Lt", l, r)
    if lt is None:
        if isinstance(l, SymV) and isinstance(r, SymV):
            # scalars the relation oracle says nothing about (e.g. representations with host bits): any ordering
            vn = it.choose("cmp:%s|%s" % (l.name, r.name), ["Less", "Equal", "Greater"])
            return StructV(ORDERING, vn, {})
        raise Unrecognised("cmp of %r, %r" % (l, r))
    if lt.b:
        return StructV(ORDERING, "Less", {})
    eq = it.prefix_cmp("Eq", l, r)
    return StructV(ORDERING, "Equal" if eq.b else "Greater", {})


@model("std::cmp::PartialOrd::lt", doc="mask(a) < mask(b) from the relation oracle")
def partial_lt(it, args, n, f):
    l = it.force(deref(it, args[0]))
    r = it.force(deref(it, args[1]))
    return it.binop("Lt", l, r, n)


# ------------------------------------------------------------------ further std idioms (kept small; one reason each)
@model("std::mem::drop", doc="no abstract effect")
def mem_drop(it, args, n, f):
    return UnitV()


@model("std::mem::take", doc="returns the old value, leaves the default (None for Option)")
def mem_take(it, args, n, f):
    c = deref(it, args[0])
    old = it.force(c)
    if isinstance(old, StructV) and old.adt == OPTION:
        it.write(c, none())
        return old
    raise Unrecognised("mem::take of %r" % (old,))


@model("std::mem::swap", doc="exchange two places")
def mem_swap(it, args, n, f):
    a, b = deref(it, args[0]), deref(it, args[1])
    va, vb = it.force(a), it.force(b)
    it.write(a, vb)
    it.write(b, va)
    return UnitV()


@model("std::option::Option::<T>::expect", doc="payload, or panic on None")
def opt_expect(it, args, n, f):
    return opt_unwrap(it, args, n, f)


@model("std::option::Option::<T>::insert", doc="leaves Some(new), returns &mut payload")
def opt_insert(it, args, n, f):
    c = deref(it, args[0])
    opt_of(it, c)
    o = some(args[1])
    it.write(c, o)
    return RefV(o.fields["0"], True)


@model("std::option::Option::<T>::unwrap_or", doc="payload or the given default")
def opt_unwrap_or(it, args, n, f):
    o = it.val_force(args[0])
    if isinstance(o, StructV) and o.adt == OPTION:
        return it.force(o.fields["0"]) if o.variant == "Some" else args[1]
    raise Unrecognised("unwrap_or of %r" % (o,))


@model("std::result::Result::<T, E>::map", doc="Ok(f(payload)) / the error unchanged")
def result_map(it, args, n, f):
    o = it.val_force(args[0])
    if isinstance(o, StructV) and o.adt == RESULT:
        if o.variant == "Ok":
            return StructV(RESULT, "Ok", {"0": Cell(it.call_value(args[1], [it.force(o.fields["0"])], n), "ok")})
        return o
    raise Unrecognised("Result::map of %r" % (o,))


@model("std::option::Option::<T>::unwrap_or_default", doc="payload, or the default of the payload type (empty Vec / None / 0 / false)")
def opt_unwrap_or_default(it, args, n, f):
    o = it.val_force(args[0])
    if isinstance(o, StructV) and o.adt == OPTION:
        if o.variant == "Some":
            return it.force(o.fields["0"])
        ts = it.ty(n["ty"])["s"]
        if ts.startswith(("std::vec::Vec<", "alloc::vec::Vec<", "Vec<")):
            return VecV(VecObj(it.fresh("vec"), [], None))
        if ts.startswith(("std::option::Option<", "core::option::Option<", "Option<")):
            return none()
        if ts in ("usize", "u8", "u16", "u32", "u64", "u128", "isize", "i32", "i64"):
            return IntV(0)
        if ts == "bool":
            return BoolV(False)
        raise Unrecognised("unwrap_or_default of type %s" % ts)
    raise Unrecognised("unwrap_or_default of %r" % (o,))


@model("std::option::Option::<T>::and_then", doc="None, or the function applied to the payload")
def opt_and_then(it, args, n, f):
    o = it.val_force(args[0])
    if isinstance(o, StructV) and o.adt == OPTION:
        if o.variant == "None":
            return none()
        return it.call_value(args[1], [it.force(o.fields["0"])], n)
    raise Unrecognised("and_then of %r" % (o,))


@model("std::option::Option::<T>::is_some_and", doc="false, or the predicate on the payload")
def opt_is_some_and(it, args, n, f):
    o = it.val_force(args[0])
    if isinstance(o, StructV) and o.adt == OPTION:
        if o.variant == "None":
            return BoolV(False)
        return it.call_value(args[1], [it.force(o.fields["0"])], n)
    raise Unrecognised("is_some_and of %r" % (o,))


@model("std::option::Option::<T>::filter", doc="keeps the payload iff the predicate holds")
def opt_filter(it, args, n, f):
    o = it.val_force(args[0])
    if isinstance(o, StructV) and o.adt == OPTION:
        if o.variant == "None":
            return none()
        keep = it.truth(it.call_value(args[1], [RefV(o.fields["0"], False)], n))
        return o if keep else none()
    raise Unrecognised("filter of %r" % (o,))


@model("std::option::Option::<T>::ok_or", doc="Some(v)→Ok(v), None→Err(e)")
def opt_ok_or(it, args, n, f):
    o = it.val_force(args[0])
    if isinstance(o, StructV) and o.adt == OPTION:
        if o.variant == "Some":
            return StructV(RESULT, "Ok", {"0": o.fields["0"]})
        return StructV(RESULT, "Err", {"0": Cell(args[1], "err")})
    raise Unrecognised("ok_or of %r" % (o,))


@model("std::option::Option::<&T>::copied", "std::option::Option::<&T>::cloned", "std::option::Option::<&mut T>::copied",
       doc="Option<&T> → Option<T>: same abstract payload")
def opt_copied(it, args, n, f):
    o = it.val_force(args[0])
    if isinstance(o, StructV) and o.adt == OPTION:
        if o.variant == "None":
            return none()
        r = it.force(o.fields["0"])
        return some(it.force(r.cell)) if isinstance(r, RefV) else o
    raise Unrecognised("copied of %r" % (o,))


@model("core::bool::<impl bool>::then", doc="Some(f()) if true else None")
def bool_then(it, args, n, f):
    if it.truth(args[0]):
        return some(it.call_value(args[1], [], n))
    return none()


@model("std::option::Option::<T>::map_or", doc="default, or the function applied to the payload")
def opt_map_or(it, args, n, f):
    o = it.val_force(args[0])
    if isinstance(o, StructV) and o.adt == OPTION:
        if o.variant == "None":
            return args[1]
        return it.call_value(args[2], [it.force(o.fields["0"])], n)
    raise Unrecognised("map_or of %r" % (o,))


@model("std::result::Result::<T, E>::is_ok", doc="reads the variant")
def res_is_ok(it, args, n, f):
    r = it.force(deref(it, args[0]))
    if isinstance(r, StructV) and r.adt == RESULT:
        return BoolV(r.variant == "Ok")
    raise Unrecognised("is_ok of %r" % (r,))


@model("std::option::Option::<T>::ok_or_else", doc="Some(v)→Ok(v), None→Err(f())")
def opt_ok_or_else(it, args, n, f):
    o = it.val_force(args[0])
    if isinstance(o, StructV) and o.adt == OPTION:
        if o.variant == "Some":
            return StructV(RESULT, "Ok", {"0": o.fields["0"]})
        return StructV(RESULT, "Err", {"0": Cell(it.call_value(args[1], [], n), "err")})
    raise Unrecognised("ok_or_else of %r" % (o,))


@model("std::cmp::PartialEq::eq", "std::cmp::PartialEq::ne", doc="(in)equality of two scalars: relation oracle for masks/lengths, else one lazy boolean")
def partial_eq(it, args, n, f):
    l = it.val_force(args[0])
    r = it.val_force(args[1])
    while isinstance(l, RefV):
        l = it.force(l.cell)
    while isinstance(r, RefV):
        r = it.force(r.cell)
    op = "Ne" if f.get("name") == "ne" else "Eq"
    return it.binop(op, l, r, n)


def _ordering_of(it, v):
    v = it.val_force(v)
    while isinstance(v, RefV):
        v = it.force(v.cell)
    if isinstance(v, StructV) and v.adt == ORDERING:
        return v.variant
    raise Unrecognised("expected an Ordering, got %r" % (v,))


@model("<std::cmp::Ordering as std::cmp::PartialEq>::eq", "<std::cmp::Ordering as std::cmp::PartialEq>::ne", doc="comparison of two Ordering values")
def ordering_eq(it, args, n, f):
    same = _ordering_of(it, args[0]) == _ordering_of(it, args[1])
    return BoolV(same if f.get("name") != "ne" and not str(f.get("path", "")).endswith("::ne") else not same)


@model("std::cmp::Ordering::is_eq", "std::cmp::Ordering::is_ne", "std::cmp::Ordering::is_lt", "std::cmp::Ordering::is_gt", "std::cmp::Ordering::is_le",
       "std::cmp::Ordering::is_ge", doc="predicates on an Ordering value")
def ordering_pred(it, args, n, f):
    v = _ordering_of(it, args[0])
    name = f.get("name") or str(f.get("path", "")).rsplit("::", 1)[-1]
    return BoolV({"is_eq": v == "Equal", "is_ne": v != "Equal", "is_lt": v == "Less", "is_gt": v == "Greater",
                  "is_le": v != "Greater", "is_ge": v != "Less"}[name])


@model("std::cmp::Ordering::reverse", doc="Less <-> Greater")
def ordering_reverse(it, args, n, f):
    v = _ordering_of(it, args[0])
    return StructV(ORDERING, {"Less": "Greater", "Greater": "Less", "Equal": "Equal"}[v], {})


@model("std::cmp::PartialOrd::gt", "std::cmp::PartialOrd::le", "std::cmp::PartialOrd::ge", doc="ordering of two scalars (relation oracle)")
def partial_ord_other(it, args, n, f):
    l = it.force(deref(it, args[0]))
    r = it.force(deref(it, args[1]))
    return it.binop({"gt": "Gt", "le": "Le", "ge": "Ge"}[f.get("name")], l, r, n)


# ------------------------------------------------------------------ sequences compared / consumed as a whole (C19)
def walker_desc(it, v):
    """description of a whole-collection walker or collection reference, for the sequence combinators"""
    v = it.val_force(v)
    for _ in range(4):
        if isinstance(v, RefV):
            v = it.force(v.cell)
    return repr(v).replace("?", "")


@model("std::iter::Iterator::eq", doc="both sequences compared to exhaustion with the items' own equality: one lazy boolean")
def iter_eq(it, args, n, f):
    a, b = walker_desc(it, args[0]), walker_desc(it, args[1])
    it.emit("seq_eq", a=a, b=b)
    return BoolV(it.choose("bool:seq_eq", [False, True]))


class ZipV(SymV):
    pass


@model("std::iter::Iterator::zip", doc="pairs two sequences, stops at the shorter")
def iter_zip(it, args, n, f):
    a, b = walker_desc(it, args[0]), walker_desc(it, args[1])
    z = ZipV("zip(%s|%s)" % (a, b))
    z.parts = (a, b)
    return z


@model("std::iter::Iterator::all", doc="all over a zipped pair of sequences: the predicate on one symbolic pair")
def iter_all(it, args, n, f):
    src = it.val_force(args[0])
    while isinstance(src, RefV):
        src = it.force(src.cell)
    if isinstance(src, ZipV):
        pair = TupleV([Cell(SymV("item_a"), "0"), Cell(SymV("item_b"), "1")])
        fn_ = it.val_force(args[1])
        if isinstance(fn_, ClosureV):
            ps = [p for p in it.facts.bodies[fn_.path]["thir"]["params"] if p.get("pat") is not None]
            if ps and it.ty(ps[0]["ty"])["t"] == "tuple" and len(it.ty(ps[0]["ty"])["a"]) == 2 and ps[0]["pat"]["k"] != "Bind":
                ta, tb = it.ty(ps[0]["ty"])["a"]
                sub = ps[0]["pat"].get("subs", [])
                # the closure destructures the items: hand it unknowns of the item types
                if any(x["pat"]["k"] not in ("Bind", "Wild") for x in sub):
                    pair = TupleV([Cell(UnkV(ta, "item_a"), "0"), Cell(UnkV(tb, "item_b"), "1")])
        r = it.call_value(args[1], [pair], {"ty": None})
        it.emit("zip_all", a=src.parts[0], b=src.parts[1], pred=repr(r))
        return BoolV(it.choose("bool:zip_all", [False, True]))
    if isinstance(src, StructV):
        d = walker_desc(it, src)
        item = SymV("item_a")
        fn_ = it.val_force(args[1])
        if isinstance(fn_, ClosureV):
            ps = [p for p in it.facts.bodies[fn_.path]["thir"]["params"] if p.get("pat") is not None]
            if ps:
                item = UnkV(ps[0]["ty"], "item_a")
        r = it.call_value(args[1], [item], {"ty": None})
        it.emit("seq_all", a=d, pred=repr(r))
        return BoolV(it.choose("bool:seq_all", [False, True]))
    raise Unrecognised("all over %r" % (src,))


@model("core::tuple::<impl std::cmp::PartialEq for (U, T)>::eq", "std::cmp::impls::<impl std::cmp::PartialEq<&B> for &A>::eq",
       doc="the items' own equality")
def own_eq(it, args, n, f):
    a = it.val_force(args[0])
    b = it.val_force(args[1])
    while isinstance(a, RefV):
        a = it.force(a.cell)
    while isinstance(b, RefV):
        b = it.force(b.cell)
    return SymV("own_eq(%r,%r)" % (a, b))


@model("<prefix_trie::inner::Table<P, T> as std::default::Default>::default", doc="fresh arena: one root slot, zero-length prefix, no value, no children")
def table_default(it, args, n, f):
    ar = it.arena(it.fresh("table"))
    root = it.force(ar.node(IntV(0)))
    root.fields["value"].value = none()
    root.fields["left"].value = none()
    root.fields["right"].value = none()
    root.fields["prefix"].value = SymV("zero()")
    it.emit("table_default", table=ar.name)
    return TableV(ar)


@model("std::iter::Iterator::for_each", doc="the function applied to every item; an unknown source yields one symbolic item")
def iter_for_each(it, args, n, f):
    src = it.val_force(args[0])
    if isinstance(src, IterV) and src.unknown is None:
        for x in src.items:
            it.call_value(args[1], [x], {"ty": None})
        return UnitV()
    if isinstance(src, IterV):
        fn_ = it.val_force(args[1])
        ety = None
        if isinstance(fn_, ClosureV):
            ps = [p for p in it.facts.bodies[fn_.path]["thir"]["params"] if p.get("pat") is not None]
            ety = ps[0]["ty"] if ps else None
        item = UnkV(ety, "item1") if ety is not None else SymV("item1")
        it.emit("iter_item", src=src.unknown, item="item1")
        it.call_value(args[1], [item], {"ty": None})
        return UnitV()
    raise Unrecognised("for_each over %r" % (src,))


@model("std::iter::Iterator::next", doc="next item of a finite / unknown iterator value")
def iter_next(it, args, n, f):
    c = deref(it, args[0])
    src = it.force(c)
    while isinstance(src, RefV):
        src = it.force(src.cell)
    if isinstance(src, IterV):
        if src.items:
            if src.unknown is None:
                it.finite_tick = True     # the enclosing loop is bounded by this known finite sequence (see e_Loop)
            return some(src.items.pop(0))
        if src.unknown is None:
            return none()
        src.count = getattr(src, "count", 0) + 1
        st = it.choose("next:%s#%d" % (src.unknown, src.count), ["N", "S"])
        if st == "N":
            src.unknown = None
            return none()
        ety = it.ty(n["ty"])["a"][0]
        nm = "item%d" % src.count
        it.emit("iter_item", src=src.unknown, item=nm)
        return some(UnkV(ety, nm))
    raise Unrecognised("next of %r" % (src,))


@model("<std::collections::HashMap<K, V, S> as std::iter::FromIterator<(K, V)>>::from_iter",
       "<std::collections::HashSet<T, S> as std::iter::FromIterator<T>>::from_iter", doc="collects a whole sequence")
def hash_from_iter(it, args, n, f):
    d = walker_desc(it, args[0])
    it.emit("collect", src=d)
    return SymV("collected(%s)" % d)


def _opaque_result(name):
    def m(it, args, n, f):
        it.emit("foreign", callee=name, args=[walker_desc(it, a) for a in args])
        if n.get("ty") is not None:
            c = Cell(UnkV(n["ty"], "%s()" % name), "%s()" % name)
            return it.force(c)
        return SymV("%s()" % name)
    return m


for _p, _nm in (("serde::ser::impls::<impl serde::Serialize for std::collections::HashMap<K, V, H>>::serialize", "serialize"),
                ("serde::ser::impls::<impl serde::Serialize for std::collections::HashSet<T, H>>::serialize", "serialize"),
                ("serde::de::impls::<impl serde::Deserialize<'de> for std::collections::HashMap<K, V, S>>::deserialize", "deserialize"),
                ("serde::de::impls::<impl serde::Deserialize<'de> for std::collections::HashSet<T, S>>::deserialize", "deserialize")):
    MODELS[_p] = _opaque_result(_nm)
    MODEL_DOC[_p] = "foreign (serde) call: opaque result of the declared type"


@model("<std::result::Result<T, E> as std::ops::Try>::branch", doc="Ok(v)→Continue(v), Err(e)→Break(Err(e))")
def res_branch(it, args, n, f):
    r = it.val_force(args[0])
    if isinstance(r, StructV) and r.adt == RESULT:
        if r.variant == "Ok":
            return StructV(CONTROLFLOW, "Continue", {"0": r.fields["0"]})
        return StructV(CONTROLFLOW, "Break", {"0": Cell(r, "residual")})
    raise Unrecognised("? on %r" % (r,))


@model("<std::result::Result<T, F> as std::ops::FromResidual<std::result::Result<std::convert::Infallible, E>>>::from_residual",
       doc="the error, re-wrapped")
def res_from_residual(it, args, n, f):
    r = it.val_force(args[0])
    if isinstance(r, StructV) and r.adt == RESULT:
        return r
    return StructV(RESULT, "Err", {"0": Cell(r, "err")})


@model("<std::vec::Vec<T, A> as std::clone::Clone>::clone", doc="a new vector with clones of the items (no sharing)")
def vec_clone(it, args, n, f):
    v = vec_of(it, args[0])
    if isinstance(v, ArenaVecV):
        from .absint import Arena
        new = it.arena("clone(%s)" % v.arena.name)
        it.emit("vec_clone", src=v.arena.name, dst=new.name, what="nodes")
        return ArenaVecV(new)
    if isinstance(v, VecV):
        it.emit("vec_clone", src=v.obj.name, dst="clone(%s)" % v.obj.name, what="vec")
        return VecV(VecObj("clone(%s)" % v.obj.name, list(v.obj.items), v.obj.base))
    raise Unrecognised("clone of %r" % (v,))


@model("std::cell::UnsafeCell::<T>::new", doc="wraps the value (identity in the abstraction)")
def unsafecell_new(it, args, n, f):
    return args[0]


@model("<std::vec::Vec<T, A> as std::clone::Clone>::clone_from", "std::clone::Clone::clone_from",
       doc="overwrite the destination with a clone of the source")
def vec_clone_from(it, args, n, f):
    dst = vec_of(it, args[0])
    src = vec_of(it, args[1])
    if isinstance(dst, ArenaVecV) and isinstance(src, ArenaVecV):
        it.emit("vec_clone", src=src.arena.name, dst=dst.arena.name, what="nodes")
        return UnitV()
    if isinstance(dst, VecV) and isinstance(src, VecV):
        it.emit("vec_clone", src=src.obj.name, dst=dst.obj.name, what="vec")
        dst.obj.items = list(src.obj.items)
        dst.obj.base = src.obj.base
        return UnitV()
    raise Unrecognised("clone_from %r <- %r" % (dst, src))


@model("<std::option::Option<T> as std::cmp::PartialEq>::eq", doc="equality of two options: one lazy boolean over their printed forms")
def opt_partial_eq(it, args, n, f):
    a = it.force(deref(it, args[0]))
    b = it.force(deref(it, args[1]))
    return SymV("opt_eq(%r,%r)" % (a, b))


@model("std::vec::Vec::<T, A>::truncate", doc="keeps the first n elements (constant n)")
def vec_truncate(it, args, n, f):
    v = vec_of(it, args[0])
    k = it.val_force(args[1])
    if isinstance(v, ArenaVecV) and isinstance(k, IntV):
        it.emit("arena_clear", table=v.arena.name, keep=k.n)
        keep = {key: c for key, c in v.arena.nodes.items() if key.isdigit() and int(key) < k.n}
        v.arena.nodes = keep
        v.arena.cleared = True
        return UnitV()
    if isinstance(v, VecV) and isinstance(k, IntV) and v.obj.base is None:
        v.obj.items = v.obj.items[:k.n]
        return UnitV()
    raise Unrecognised("truncate of %r to %r" % (v, k))


@model("<usize as std::convert::From<bool>>::from", "<u8 as std::convert::From<bool>>::from", "<u32 as std::convert::From<bool>>::from",
       "<u64 as std::convert::From<bool>>::from", "std::convert::num::<impl std::convert::From<bool> for usize>::from",
       "std::convert::num::<impl std::convert::From<bool> for u8>::from", "std::convert::num::<impl std::convert::From<bool> for u32>::from",
       "std::convert::num::<impl std::convert::From<bool> for u64>::from", "std::convert::num::<impl std::convert::From<bool> for isize>::from",
       doc="false→0, true→1")
def int_from_bool(it, args, n, f):
    return IntV(1 if it.truth(args[0]) else 0)
