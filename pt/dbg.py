"""debug helper: python3 -m pt.dbg <short fn name> [loop_bound]"""
import json, sys
from . import facts, absint

def main():
    F = facts.Facts(json.load(open('/var/tmp/facts-all.json')))
    name = sys.argv[1]
    path = F.short[name]
    if len(sys.argv) > 3 and sys.argv[3] == 'pp':
        print(facts.pp(F, F.bodies[path]['thir']['body']))
        return
    lb = int(sys.argv[2]) if len(sys.argv) > 2 else 2
    ps = absint.explore(F, path, absint.default_args(F, path), {"loop_bound": lb})
    import collections
    c = collections.Counter(p.result[0] for p in ps)
    for p in ps:
        print("----", p.result)
        print("   in:", p.inputs)
        for e in p.events:
            if e.kind in ('loop_iter',): continue
            print("     ", e)
    print(len(ps), dict(c))

main()
