"""Role-based canonical names for PRIVATE fields and PRIVATE enum variants.

The rules talk about parts of the crate's private state: the stack and table references of the iterators, the free list and
counter of the map, the position of a view, the kinds of entries on a set-operation stack.  Those parts are found here by
what they ARE (their types, and for stack-entry kinds what `next()` does with them), not by what they are called, and the
fact base is rewritten to fixed role names before any rule runs.  Renaming a private field or variant is therefore
invisible to the rules (no alarm on an edit that leaves behaviour unchanged); a part that cannot be identified keeps its
name and the rules that need it fail closed as before.

  struct fields (by type, structs of the crate only):
    PrefixMap      : the Table            -> table   | Vec<usize> -> free | usize -> count
    PrefixSet      : the PrefixMap        -> 0
    views          : &Table               -> table   | ViewLoc    -> loc
    entry handles  : &mut PrefixMap -> map | &mut Node -> node | &mut usize -> count | usize -> idx | DirectionForInsert -> direction | P -> prefix
    iterators      : (&|Option<&>|owned) Table -> table, or table_l / table_r when there are two (ordered like the struct's own
                     value-type parameters); the one Vec<..> -> nodes; the one field that is itself a crate iterator -> inner
                     (named structs) / 0 stays
  enum variants:
    ViewLoc        : (usize) -> Node | (P, usize) -> Virtual
    stack entries  : the enum stored in a set-operation iterator's stack; each variant is classified by interpreting one
                     `next()` on a stack holding just that variant and looking at WHICH table's child links the step reads:
                     two indices: both tables -> Both, left only -> FirstL, right only -> FirstR; one index: OnlyL / OnlyR.
"""
import copy
import re

CR = "prefix_trie"
TABLE = CR + "::inner::Table"
PMAP = CR + "::map::PrefixMap"
PSET = CR + "::set::PrefixSet"
VIEWLOC = CR + "::trieview::ViewLoc"


def _tys(raw, i):
    return raw["types"][i]["s"]


def _struct_fields(a):
    return a["variants"][0]["fields"] if a["kind"] == "Struct" and a["variants"] else []


def field_roles(raw):
    """{(adt path, field name): canonical name}  (only entries that change something)"""
    adts = {a["path"]: a for a in raw["adts"]}
    out = {}

    def put(adt, fld, new):
        if fld["name"] != new:
            out[(adt, fld["name"])] = new

    def is_table(s):
        return re.search(r"(^|[ <&(])inner::Table<", s) is not None and "Vec<" not in s.split("inner::Table<")[0]

    iters = set()
    for i in raw["impls"]:
        if (i.get("trait") or "").endswith("iter::Iterator"):
            t = raw["types"][i["self_ty"]]
            if t["t"] == "adt" and t["p"].startswith(CR + "::"):
                iters.add(t["p"])
    for path, a in adts.items():
        if not path.startswith(CR + "::") or a["kind"] != "Struct":
            continue
        fs = _struct_fields(a)
        names = {f["name"] for f in fs}
        if path == PMAP:
            tb = [f for f in fs if _tys(raw, f["ty"]).startswith("inner::Table<")]
            fr = [f for f in fs if _tys(raw, f["ty"]).replace("std::vec::", "").startswith("Vec<usize")]
            ct = [f for f in fs if _tys(raw, f["ty"]) == "usize"]
            if len(tb) == 1 and len(fr) == 1 and len(ct) == 1:
                put(path, tb[0], "table")
                put(path, fr[0], "free")
                put(path, ct[0], "count")
            continue
        if path == PSET:
            mp = [f for f in fs if "map::PrefixMap<" in _tys(raw, f["ty"])]
            if len(mp) == 1 and len(fs) == 1:
                put(path, mp[0], "0")
            continue
        if path.endswith("::entry::VacantEntry") or path.endswith("::entry::OccupiedEntry"):
            # entry handles (public types, private fields): each field has a type of its own
            roles = [("map", lambda t: "map::PrefixMap<" in t), ("node", lambda t: "inner::Node<" in t), ("count", lambda t: t.replace("&'a ", "&").startswith("&mut usize")),
                     ("idx", lambda t: t == "usize"), ("direction", lambda t: "DirectionForInsert<" in t), ("prefix", lambda t: t == "P")]
            for role, pred in roles:
                m_ = [f for f in fs if pred(_tys(raw, f["ty"]))]
                if len(m_) == 1:
                    put(path, m_[0], role)
            for (p_, old), new in list(out.items()):
                if p_ == path and new in names and (p_, new) not in out:
                    del out[(p_, old)]
            continue
        tables = [f for f in fs if is_table(_tys(raw, f["ty"]))]
        if not tables and path in iters:
            # an owning iterator keeps the node vector itself
            tables = [f for f in fs if re.match(r"(std::vec::|alloc::vec::)?Vec<inner::Node<", _tys(raw, f["ty"]))]
        if not tables and path not in iters:
            continue
        locs = [f for f in fs if _tys(raw, f["ty"]).startswith("trieview::ViewLoc<")]
        if len(tables) == 1:
            put(path, tables[0], "table")
        elif len(tables) == 2:
            # order by the position of the table's value type among the struct's own type parameters
            gen = [g["name"] for g in a["generics"] if g["kind"] == "type"]

            def pos(f):
                m = re.search(r"inner::Table<\s*[^,]+,\s*([A-Za-z0-9_]+)\s*>", _tys(raw, f["ty"]))
                return gen.index(m.group(1)) if m and m.group(1) in gen else 99
            ts = sorted(tables, key=pos)
            if pos(ts[0]) != pos(ts[1]) and pos(ts[1]) != 99:
                put(path, ts[0], "table_l")
                put(path, ts[1], "table_r")
        if len(locs) == 1:
            put(path, locs[0], "loc")
        vecs = [f for f in fs if _tys(raw, f["ty"]).replace("std::vec::", "").startswith("Vec<") and f not in tables]
        if tables and len(vecs) == 1 and path != TABLE:
            put(path, vecs[0], "nodes")
        if path in iters and not tables:
            inner = [f for f in fs if raw["types"][f["ty"]]["t"] == "adt" and raw["types"][f["ty"]]["p"] in iters]
            if len(inner) == 1 and not inner[0]["name"].isdigit():
                put(path, inner[0], "inner")
        # a rename must not collide with another field of the same struct
        for (p_, old), new in list(out.items()):
            if p_ == path and new in names and (p_, new) not in out:
                del out[(p_, old)]
    return out


def viewloc_roles(raw):
    out = {}
    for a in raw["adts"]:
        if a["path"] != VIEWLOC or a["kind"] != "Enum":
            continue
        one = [v for v in a["variants"] if len(v["fields"]) == 1 and _tys(raw, v["fields"][0]["ty"]) == "usize"]
        two = [v for v in a["variants"] if len(v["fields"]) == 2 and _tys(raw, v["fields"][1]["ty"]) == "usize"]
        if len(one) == 1 and len(two) == 1 and len(a["variants"]) == 2:
            if one[0]["name"] != "Node":
                out[(VIEWLOC, one[0]["name"])] = "Node"
            if two[0]["name"] != "Virtual":
                out[(VIEWLOC, two[0]["name"])] = "Virtual"
    return out


def apply(raw, mf, mv):
    """rewrite field and variant names everywhere they occur in the fact base (in place)"""
    if not mf and not mv:
        return raw

    def fld(adt, name):
        return mf.get((adt, name), name)

    def var(adt, name):
        return mv.get((adt, name), name)

    for a in raw["adts"]:
        for v in a["variants"]:
            if a["kind"] == "Enum":
                v["name"] = var(a["path"], v["name"])
            else:
                for f in v["fields"]:
                    f["name"] = fld(a["path"], f["name"])
    stack = [raw["bodies"], raw["fns"], raw["impls"]]
    while stack:
        x = stack.pop()
        if isinstance(x, list):
            stack.extend(x)
            continue
        if not isinstance(x, dict):
            continue
        k = x.get("k")
        adt = x.get("adt")
        if k == "Field" and adt:
            if x.get("variant") is not None and (adt, x["variant"]) in mv:
                x["variant"] = var(adt, x["variant"])
            x["field"] = fld(adt, x["field"])
        elif k == "Adt" and adt:
            x["variant"] = var(adt, x["variant"])
            for f in x.get("fields", []):
                f["name"] = fld(adt, f["name"])
        elif k == "Variant" and adt and "subs" in x:
            x["variant"] = var(adt, x["variant"])
        elif k == "Leaf" and adt and "subs" in x:
            for s_ in x["subs"]:
                s_["field"] = fld(adt, s_["field"])
        elif k == "FnRef" and str(x.get("defkind", "")).startswith("Ctor"):
            own = x.get("ctor_of")
            for (a_, old), new in mv.items():
                if x.get("path", "").endswith("::" + old) and (own == a_ or x["path"].startswith(a_ + "::")):
                    x["path"] = x["path"][: -len(old)] + new
                    x["name"] = new
        elif k is None and adt and "field" in x and "how" in x:       # MIR write site
            x["field"] = fld(adt, x["field"])
            if x.get("variant") is not None:
                x["variant"] = var(adt, x["variant"])
        stack.extend(v for v in x.values() if isinstance(v, (dict, list)))
    raw.setdefault("canonicalised", {}).update({"%s.%s" % k_: v for k_, v in list(mf.items()) + list(mv.items())})
    return raw


NODE = CR + "::inner::Node"


def adt_roles(raw):
    """{actual full path: canonical full path} for the three anchor types, found by shape: the arena is the crate struct whose only
    field is an UnsafeCell<Vec<X>>; the node type is that X (prefix, optional value, two optional indices); the view position is
    the two-variant enum (index) / (key, index) held by the view structs."""
    out = {}
    adts = {a["path"]: a for a in raw["adts"]}
    arena = [a for a in raw["adts"] if a["kind"] == "Struct" and a["path"].startswith(CR + "::") and len(_struct_fields(a)) == 1
             and re.match(r"^(std|core)::cell::UnsafeCell<(std|alloc)::vec::Vec<", _tys(raw, _struct_fields(a)[0]["ty"]))]
    if len(arena) != 1:
        return out
    if arena[0]["path"] != TABLE:
        out[arena[0]["path"]] = TABLE
    m = re.match(r"^(?:std|core)::cell::UnsafeCell<(?:std|alloc)::vec::Vec<([\w:]+)<", _tys(raw, _struct_fields(arena[0])[0]["ty"]))
    if m:
        node = [a for a in raw["adts"] if a["path"].startswith(CR + "::") and (a["path"] == CR + "::" + m.group(1) or a["path"].endswith("::" + m.group(1)))]
        if len(node) == 1 and node[0]["path"] != NODE:
            out[node[0]["path"]] = NODE
    locs = [a for a in raw["adts"] if a["kind"] == "Enum" and a["path"].startswith(CR + "::") and len(a["variants"]) == 2
            and sorted(len(v["fields"]) for v in a["variants"]) == [1, 2]
            and all(_tys(raw, v["fields"][-1]["ty"]) == "usize" for v in a["variants"])]
    if len(locs) == 1 and locs[0]["path"] != VIEWLOC:
        out[locs[0]["path"]] = VIEWLOC
    # never rename onto a name that is already taken by another type
    for old, new in list(out.items()):
        if new in adts and new not in out:
            del out[old]
    return out


def apply_adts(raw, ren):
    """textual renaming of the anchor types over the whole fact base (full paths and crate-relative paths)"""
    if not ren:
        return raw
    import json as _json
    txt = _json.dumps(raw)
    for old, new in ren.items():
        for o, n_ in ((old, new), (old[len(CR) + 2:], new[len(CR) + 2:])):
            txt = re.sub(r"(?<![\w:])" + re.escape(o) + r"(?![\w])", n_, txt)
    out = _json.loads(txt)
    out.setdefault("canonicalised", {}).update(ren)
    raw.clear()
    raw.update(out)
    return raw


def param_roles(raw):
    """[(fn path, binding id, old name, new name)]: in a function with exactly one parameter of the key type (`P`, `&P`) that
    parameter is called `prefix`; with exactly one parameter of the value type `T` it is called `value`.  (Parameter names
    of public functions are not part of the API; rules name the query / payload by role.)"""
    out = []
    fns = {f["path"]: f for f in raw["fns"]}
    for b in raw["bodies"]:
        if b.get("kind") == "closure" or b["path"] not in fns:
            continue
        f = fns[b["path"]]
        gen = {g["name"] for g in f.get("generics", []) if g["kind"] == "type"}
        keyp = [pr["s"].split(":")[0].strip() for pr in f.get("preds", []) if (pr.get("trait") or "").endswith("prefix::Prefix")]
        binds = [(q["pat"], raw["types"][q["ty"]]) for q in b["thir"]["params"] if q.get("pat") and q["pat"]["k"] == "Bind"]
        names = {pt["name"] for pt, _ in binds}

        def peeled(t):
            while t["t"] == "ref":
                t = raw["types"][t["i"]]
            return t
        # a binary method: (self, X) where X is another value of the receiver's type or an `impl AsView..` operand -> `other`
        if len(binds) == 2 and binds[0][0]["name"] == "self" and binds[1][0]["name"] != "other":
            t0, t1 = peeled(binds[0][1]), peeled(binds[1][1])
            if t1["s"] == t0["s"] or ("AsView" in t1["s"] and t1["s"].lstrip().startswith("impl ")):
                out.append((b["path"], binds[1][0]["id"], binds[1][0]["name"], "other"))
        for role, want in (("prefix", lambda t: t["t"] == "param" and t["s"] in keyp and t["s"] in ("P",)),
                           ("value", lambda t: t["t"] == "param" and t["s"] == "T" and "T" not in keyp)):
            m = [pt for pt, ty in binds if want(peeled(ty))]
            if len(m) == 1 and m[0]["name"] != role and role not in names and m[0]["name"] != "self":
                out.append((b["path"], m[0]["id"], m[0]["name"], role))
    return out


def apply_params(raw, ren):
    if not ren:
        return raw
    by_fn = {}
    for path, vid, old, new in ren:
        by_fn.setdefault(path, {})[vid] = (old, new)
    for b in raw["bodies"]:
        base = b["path"].split("::{closure")[0]
        m = by_fn.get(base)
        if not m:
            continue
        stack = [b["thir"]]
        while stack:
            x = stack.pop()
            if isinstance(x, list):
                stack.extend(x)
                continue
            if not isinstance(x, dict):
                continue
            if x.get("k") in ("Var", "Bind") and x.get("id") in m and x.get("name") == m[x["id"]][0]:
                x["name"] = m[x["id"]][1]
            stack.extend(v for v in x.values() if isinstance(v, (dict, list)))
    raw.setdefault("canonicalised", {}).update({"%s(%s)" % (p_, o): n for p_, _, o, n in ren})
    return raw


def stack_enum_of(raw, it_adt):
    """the enum stored in the `nodes` vector of a set-operation iterator (directly or as first tuple component)"""
    adts = {a["path"]: a for a in raw["adts"]}
    a = adts.get(it_adt)
    if not a:
        return None
    for f in _struct_fields(a):
        if f["name"] != "nodes":
            continue
        t = raw["types"][f["ty"]]
        if not t.get("a"):
            return None
        e = raw["types"][t["a"][0]]
        if e["t"] == "tuple" and e.get("a"):
            e = raw["types"][e["a"][0]]
        if e["t"] == "adt" and e["p"] in adts and adts[e["p"]]["kind"] == "Enum":
            return e["p"]
    return None
