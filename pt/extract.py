"""Run the fact extractor (driver/) over /repo's current working tree.

Every call builds into a fresh temporary target directory (cargo's freshness cache would
otherwise skip the wrapper) and removes it afterwards.  Nothing of /repo is executed: the
driver is a rustc front end (`cargo check`), it stops after analysis.
"""
import json
import os
import shutil
import subprocess
import tempfile
import time
from concurrent.futures import ThreadPoolExecutor

VERIF = os.path.dirname(os.path.dirname(os.path.abspath(__file__)))
REPO = os.environ.get("PT_REPO", "/repo")
DRIVER = os.path.join(VERIF, "driver", "target", "debug", "ptfacts")
SCRATCH = os.environ.get("PT_SCRATCH", "/var/tmp")

FEATURES = ["ipnet", "ipnetwork", "cidr", "serde"]

CONFIGS = {
    "default": [],
    "all-features": ["--all-features"],
    "no-default": ["--no-default-features"],
}


def all_feature_subsets():
    out = {}
    for m in range(16):
        fs = [f for i, f in enumerate(FEATURES) if m >> i & 1]
        name = "f:" + ("+".join(fs) if fs else "none")
        args = ["--no-default-features"]
        if fs:
            args += ["--features", ",".join(fs)]
        out[name] = args
    return out


def nightly_sysroot():
    return subprocess.check_output(["rustc", "+nightly", "--print", "sysroot"], text=True).strip()


_SYSROOT = None


def ensure_driver():
    if not os.path.exists(DRIVER):
        subprocess.check_call(["cargo", "build", "--offline"], cwd=os.path.join(VERIF, "driver"),
                              env=dict(os.environ, CARGO_NET_OFFLINE="true"))
    return DRIVER


def extract_one(name, cargo_args, repo=None, keep_target=False):
    """returns (facts dict, info)"""
    global _SYSROOT
    repo = repo or REPO
    ensure_driver()
    if _SYSROOT is None:
        _SYSROOT = nightly_sysroot()
    tmp = tempfile.mkdtemp(prefix="ptfacts-", dir=SCRATCH)
    out = os.path.join(tmp, "facts.json")
    env = dict(os.environ)
    env.update({
        "LD_LIBRARY_PATH": os.path.join(_SYSROOT, "lib"),
        "RUSTFLAGS": "-Zmir-opt-level=0 -Awarnings",
        "RUSTC_WORKSPACE_WRAPPER": DRIVER,
        "CARGO_TARGET_DIR": os.path.join(tmp, "t"),
        "CARGO_NET_OFFLINE": "true",
        "PTFACTS_OUT": out,
        "PTFACTS_CONFIG": name,
    })
    env.pop("RUSTC_WRAPPER", None)
    t0 = time.time()
    p = subprocess.run(["cargo", "+nightly", "check", "--offline", "--lib", "-q"] + cargo_args,
                       cwd=repo, env=env, stdout=subprocess.PIPE, stderr=subprocess.STDOUT, text=True)
    info = {"config": name, "cargo_args": cargo_args, "wall_s": round(time.time() - t0, 2),
            "returncode": p.returncode}
    try:
        if p.returncode != 0 or not os.path.exists(out):
            info["error"] = p.stdout[-4000:]
            return None, info
        with open(out) as f:
            facts = json.load(f)
        info["bytes"] = os.path.getsize(out)
        if keep_target:
            info["target_dir"] = os.path.join(tmp, "t")
            info["tmp"] = tmp
        return facts, info
    finally:
        if not keep_target:
            shutil.rmtree(tmp, ignore_errors=True)


def extract(configs, repo=None, jobs=8):
    """configs: dict name -> cargo args.  returns dict name -> (facts, info)"""
    res = {}
    with ThreadPoolExecutor(max_workers=jobs) as ex:
        futs = {n: ex.submit(extract_one, n, a, repo) for n, a in configs.items()}
        for n, f in futs.items():
            res[n] = f.result()
    return res
