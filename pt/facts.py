"""Fact base: load + index the JSON written by the driver, naming helpers, tree walking."""
import re

CRATE = "prefix_trie"
AMBIG = {"Iter", "IntoIter", "Node"}


class Facts:
    def __init__(self, raw):
        self.raw = raw
        self.config = raw.get("config")
        self.types = raw["types"]
        self.adts = {a["path"]: a for a in raw["adts"]}
        self.impls = raw["impls"]
        self.fns = {}
        self.bodies = {}
        self.short = {}          # short name -> full path
        self.short_of = {}       # full path -> short name
        for f in raw["fns"]:
            self.fns[f["path"]] = f
        for b in raw["bodies"]:
            self.bodies[b["path"]] = b
        for f in raw["fns"]:
            s = self._short_fn(f)
            if s in self.short and self.short[s] != f["path"]:
                # disambiguate with file stem
                s2 = s + "@" + f["file"].split("/")[-1].replace(".rs", "")
                s = s2
            self.short[s] = f["path"]
            self.short_of[f["path"]] = s
        # closures: parent short + suffix
        for b in raw["bodies"]:
            if b["kind"] == "closure":
                p = b["path"]
                m = re.match(r"(.*)::(\{closure#\d+\})$", p)
                parent, suf = (m.group(1), m.group(2)) if m else (p, "")
                # nested closures: walk up
                par_short = None
                q = parent
                sufs = [suf]
                while q and q not in self.short_of:
                    m2 = re.match(r"(.*)::(\{closure#\d+\})$", q)
                    if not m2:
                        break
                    q, s2 = m2.group(1), m2.group(2)
                    sufs.append(s2)
                par_short = self.short_of.get(q, q)
                s = par_short + "::" + "::".join(reversed(sufs))
                self.short[s] = p
                self.short_of[p] = s

    # ---- types
    def ty(self, i):
        return self.types[i]

    def ty_str(self, i):
        return self.types[i]["s"]

    def ty_peel(self, i):
        """peel references; returns (type obj, list of 'mut'/'shared')"""
        t = self.types[i]
        refs = []
        while t["t"] == "ref":
            refs.append("mut" if t["m"] else "shared")
            t = self.types[t["i"]]
        return t, refs

    def adt_of(self, i):
        t, _ = self.ty_peel(i)
        return t["p"] if t["t"] == "adt" else None

    def short_adt(self, path):
        if path is None:
            return None
        segs = path.split("::")
        if segs[0] == CRATE and segs[-1] in AMBIG:
            # Iter / IntoIter exist in map and set; Node in inner only (union has a type alias)
            mod = segs[1]
            return mod + "::" + segs[-1]
        return segs[-1]

    def short_ty(self, i):
        t = self.types[i]
        k = t["t"]
        if k == "ref":
            return ("&mut " if t["m"] else "&") + self.short_ty(t["i"])
        if k == "adt":
            return self.short_adt(t["p"])
        if k == "tuple":
            return "(" + ", ".join(self.short_ty(x) for x in t["a"]) + ")"
        if k == "param":
            return t["n"]
        return t["s"]

    def _short_fn(self, f):
        name = f["name"]
        if f.get("impl"):
            st = self.short_ty(f["impl_self_ty"])
            if f.get("impl_trait"):
                tr = f["impl_trait"].split("::")[-1]
                return "<%s as %s>::%s" % (st, tr, name)
            return "%s::%s" % (st, name)
        if f.get("trait_decl"):
            return "%s::%s" % (f["trait_decl"].split("::")[-1], name)
        segs = f["path"].split("::")
        if len(segs) >= 3:
            return segs[-2] + "::" + name
        return name

    def fn(self, short):
        p = self.short.get(short)
        return self.fns.get(p) if p else None

    def body(self, short_or_path):
        p = self.short.get(short_or_path, short_or_path)
        b = self.bodies.get(p)
        return b

    def lib_fns(self):
        """non-test functions of the library (the driver never sees cfg(test) code in a
        `cargo check --lib` build, but keep the filter explicit)"""
        return [f for f in self.raw["fns"] if "/fuzzing/" not in f["file"] and not f["file"].endswith("test.rs")]


def walk(node, fn, parents=None):
    """pre-order walk over every dict node that has a 'k'; fn(node, parents)"""
    if parents is None:
        parents = []
    if isinstance(node, dict):
        if "k" in node:
            fn(node, parents)
            parents = parents + [node]
        for k, v in node.items():
            if k in ("ty",):
                continue
            walk(v, fn, parents)
    elif isinstance(node, list):
        for v in node:
            walk(v, fn, parents)


def find_all(node, pred):
    out = []

    def f(n, ps):
        if pred(n):
            out.append((n, ps))
    walk(node, f)
    return out


def calls_in(facts, body):
    """all Call nodes with their resolved callee path"""
    out = []
    for n, ps in find_all(body, lambda n: n["k"] == "Call"):
        out.append((callee_of(n), n, ps))
    return out


def callee_of(call):
    fun = call["fun"]
    if fun["k"] == "FnRef":
        return call.get("resolved") or fun["path"]
    return None


def callee_name(call):
    fun = call["fun"]
    if fun["k"] == "FnRef":
        return fun["name"]
    return None


# ---------------------------------------------------------------- pretty printer (debug aid)
def pp(facts, n, ind=0):
    sp = "  " * ind
    if n is None:
        return "∅"
    k = n.get("k")
    P = lambda x, i=ind: pp(facts, x, i)
    if k == "Block":
        s = "{" + (" /*%s*/" % n["safety"] if n.get("safety") != "safe" else "") + "\n"
        for st in n["stmts"]:
            s += sp + "  " + P(st, ind + 1) + ";\n"
        if n.get("expr") is not None:
            s += sp + "  " + P(n["expr"], ind + 1) + "\n"
        return s + sp + "}"
    if k == "ExprStmt":
        return P(n["e"])
    if k == "Let":
        s = "let %s = %s" % (ppat(n["pat"]), P(n["init"]))
        if n.get("else"):
            s += " else " + P(n["else"])
        return s
    if k == "Lit":
        for key in ("int", "bool", "str", "bigint", "other"):
            if key in n:
                return repr(n[key]) if key == "str" else str(n[key]).lower() if key == "bool" else str(n[key])
    if k == "Var":
        return n["name"]
    if k == "FnRef":
        return facts.short_of.get(n["path"], n["path"])
    if k == "Call":
        f = n["fun"]
        name = P(f)
        if n.get("resolved"):
            name = facts.short_of.get(n["resolved"], n["resolved"])
        return "%s(%s)" % (name, ", ".join(P(a) for a in n["args"]))
    if k == "Field":
        return "%s.%s" % (P(n["base"]), n["field"])
    if k == "Deref":
        return "*" + P(n["e"])
    if k == "Borrow":
        return ("&mut " if n["mut"] else "&") + P(n["e"])
    if k == "RawBorrow":
        return ("&raw mut " if n["mut"] else "&raw const ") + P(n["e"])
    if k == "Assign":
        return "%s = %s" % (P(n["l"]), P(n["r"]))
    if k == "AssignOp":
        return "%s %s= %s" % (P(n["l"]), n["op"], P(n["r"]))
    if k in ("Binary", "Logical"):
        return "(%s %s %s)" % (P(n["l"]), n["op"], P(n["r"]))
    if k == "Unary":
        return "%s(%s)" % (n["op"], P(n["e"]))
    if k == "Cast":
        return "(%s as %s)" % (P(n["e"]), facts.short_ty(n["ty"]))
    if k == "Coerce":
        return "coerce<%s>(%s)" % (n["cast"], P(n["e"]))
    if k == "If":
        s = "if %s %s" % (P(n["cond"]), P(n["then"]))
        if n.get("else"):
            s += " else " + P(n["else"])
        return s
    if k == "LetCond":
        return "let %s = %s" % (ppat(n["pat"]), P(n["e"]))
    if k == "Match":
        s = "match %s {\n" % P(n["scrut"])
        for a in n["arms"]:
            g = (" if " + P(a["guard"])) if a.get("guard") else ""
            s += sp + "  %s%s => %s,\n" % (ppat(a["pat"]), g, P(a["body"], ind + 1))
        return s + sp + "}"
    if k == "Loop":
        return "loop " + P(n["body"])
    if k == "Break":
        return "break'%s %s" % (n["label"], P(n["value"]) if n.get("value") else "")
    if k == "Continue":
        return "continue'%s" % n["label"]
    if k == "Return":
        return "return %s" % (P(n["value"]) if n.get("value") else "")
    if k == "Tuple":
        return "(" + ", ".join(P(x) for x in n["elems"]) + ")"
    if k == "Array":
        return "[" + ", ".join(P(x) for x in n["elems"]) + "]"
    if k == "Adt":
        fs = ", ".join("%s: %s" % (f["name"], P(f["e"])) for f in n["fields"])
        return "%s::%s{%s}" % (n["adt"].split("::")[-1], n["variant"], fs)
    if k == "Closure":
        return "closure<%s>" % facts.short_of.get(n["path"], n["path"])
    if k == "Const":
        return "const " + n["path"]
    if k == "Zst":
        return "zst<%s>" % facts.ty_str(n["ty"])
    return "<%s>" % k


def ppat(p):
    k = p["k"]
    if k == "Wild":
        return "_"
    if k == "Bind":
        s = {"no": "", "shared": "ref ", "mut": "ref mut "}[p["by_ref"]] + ("mut " if p["mutbl"] else "") + p["name"]
        if p.get("sub"):
            s += " @ " + ppat(p["sub"])
        return s
    if k == "Variant":
        subs = ", ".join("%s: %s" % (s["field"], ppat(s["pat"])) for s in p["subs"])
        return "%s::%s{%s}" % (p["adt"].split("::")[-1], p["variant"], subs)
    if k == "Leaf":
        subs = ", ".join("%s: %s" % (s["field"], ppat(s["pat"])) for s in p["subs"])
        return "{%s}" % subs
    if k == "Deref":
        return "&" + ppat(p["sub"])
    if k == "Const":
        return p["value"]
    if k == "Or":
        return " | ".join(ppat(x) for x in p["pats"])
    return "<%s>" % k
