"""Shared pieces of the rule modules: composite programs, MIR queries, path helpers."""
from .. import absint
from ..absint import (BoolV, Cell, Infeasible, IntV, RefV, StructV, SymV, TupleV, UnkV, Unrecognised, OPTION,
                      RESULT)

NODE = "prefix_trie::inner::Node"
PMAP = "prefix_trie::map::PrefixMap"
TABLE = "prefix_trie::inner::Table"


def is_lib(F, path):
    f = F.fns.get(path)
    if f is None:
        return True
    return "/fuzzing/" not in f["file"] and not f["file"].endswith("/test.rs")


def mir_writers(F, adt, field, hows=None):
    """short names of the functions (and closures) whose MIR writes / mutably borrows adt.field"""
    out = {}
    for p, b in F.bodies.items():
        m = b.get("mir")
        if not m:
            continue
        for w in m["writes"]:
            if w["adt"] == adt and w["field"] == field and (hows is None or w["how"] in hows):
                out.setdefault(F.short_of.get(p, p), []).append(w)
    return out


def mir_callers(F, callee_substr):
    out = {}
    for p, b in F.bodies.items():
        m = b.get("mir")
        if not m:
            continue
        for c in m["calls"]:
            name = c.get("resolved") or c.get("callee") or ""
            if callee_substr in name:
                out.setdefault(F.short_of.get(p, p), []).append(c)
    return out


def functions_entered(paths):
    s = set()
    for p in paths:
        for e in p.events:
            if e.kind == "call":
                s.add(e["callee"])
    return s


def fn_params(F, path):
    """[(name, ty, self_kind)] of the parameters that have a pattern"""
    b = F.bodies[path]
    out = []
    for i, p in enumerate(b["thir"]["params"]):
        pat = p.get("pat")
        if pat is None:
            continue
        nm = pat["name"] if pat["k"] == "Bind" else "arg%d" % i
        out.append((nm, p["ty"], p.get("self_kind")))
    return out


def call_program(F, short, prefix=""):
    path = F.short[short]

    def prog(it):
        args = [absint.unknown(it, ty, prefix + nm) for nm, ty, _ in fn_params(F, path)]
        return it.run_fn(path, args)
    return prog


def entry_then(F, method_short, want_variant=None, then=None):
    """PrefixMap::entry(self, prefix) followed by a method of Entry / VacantEntry / OccupiedEntry.
    want_variant: None (method of Entry), "Vacant" or "Occupied" (method of the inner handle: paths on
    which entry() returned the other variant are pruned).  `then(it, handle_cell, result)` may run
    further steps."""
    entry_path = F.short["PrefixMap::entry"]
    mpath = F.short[method_short]

    def prog(it):
        eargs = [absint.unknown(it, ty, nm) for nm, ty, _ in fn_params(F, entry_path)]
        e = it.run_fn(entry_path, eargs)
        it.emit("handle", variant=e.variant)
        hcell = Cell(e, "entry")
        if want_variant is not None:
            if e.variant != want_variant:
                raise Infeasible("entry() returned the other variant")
            hcell = e.fields["0"]
        params = fn_params(F, mpath)
        args = []
        for i, (nm, ty, sk) in enumerate(params):
            if i == 0:
                t = F.types[ty]
                if t["t"] == "ref":
                    args.append(RefV(hcell, t["m"]))
                else:
                    args.append(it.force(hcell))
            else:
                args.append(absint.unknown(it, ty, "m." + nm))
        it.emit("method", name=method_short)
        r = it.run_fn(mpath, args)
        if then is not None:
            return then(it, hcell, r)
        return r
    return prog


def complete(paths):
    return [p for p in paths if p.result[0] == "ret"]


def report_unrecognised(rep, rule, where, paths, F):
    """fail closed on anything the interpreter could not follow"""
    n = 0
    for p in paths:
        if p.result[0] == "unrecognised":
            n += 1
            rep.bad(rule, where, "unrecognised:" + p.result[1][:80],
                    "%s: the interpreter cannot follow this code: %s" % (where, p.result[1]), kind="unrecognised",
                    config=F.config)
    return n


def inputs_str(p, limit=8):
    return ", ".join("%s=%s" % (k, v) for k, v in p.inputs[:limit])


def events_str(p, kinds=None, limit=12):
    ev = [e for e in p.events if (kinds is None or e.kind in kinds)]
    return [repr(e) for e in ev[:limit]]


def result_str(p):
    r = p.result
    if r[0] == "ret":
        return "ret " + repr(r[1])
    return " ".join(str(x) for x in r)


def recursion_summary_hook(F, short, max_depth=1):
    """hook for a self-recursive function: calls nested deeper than max_depth are replaced by the
    induction hypothesis "the callee satisfies the rule being checked": no events, unknown result."""
    path = F.short[short]
    out_ty = F.fns[path]["output"]

    def hook(it, callee, fnref, args, n, fr):
        if callee != path:
            return NotImplemented
        depth = sum(1 for f in it.frames if f.fn_path == path)
        if depth < max_depth:
            return NotImplemented
        it.rec_n = getattr(it, "rec_n", 0) + 1
        it.emit("recursive_call", callee=short, n=it.rec_n, args=[repr(a) for a in args])
        t = F.types[out_ty]
        if t["t"] == "tuple":
            cells = []
            for i, x in enumerate(t["a"]):
                # a returned closure / callback parameter is handed back unchanged
                same = [a for a in args if isinstance(a, absint.SymV) and a.ty == x]
                if F.types[x]["t"] == "param" and same:
                    cells.append(Cell(same[0], "r%d" % i))
                else:
                    cells.append(Cell(UnkV(x, "rec%d.%d" % (it.rec_n, i)), "rec%d.%d" % (it.rec_n, i)))
            return TupleV(cells)
        return absint.unknown(it, out_ty, "rec%d" % it.rec_n)
    return hook
