"""Shared pieces of the rule modules: composite programs, MIR queries, path helpers."""
from .. import absint
from ..absint import (BoolV, Cell, Infeasible, IntV, RefV, StructV, SymV, TupleV, UnkV, Unrecognised, OPTION,
                      RESULT)

NODE = "prefix_trie::inner::Node"
PMAP = "prefix_trie::map::PrefixMap"
TABLE = "prefix_trie::inner::Table"


def is_lib(F, path):
    f = F.fns.get(path)
    if f is None:
        return True
    return "/fuzzing/" not in f["file"] and not f["file"].endswith("/test.rs")


def mir_writers(F, adt, field, hows=None):
    """short names of the functions (and closures) whose MIR writes / mutably borrows adt.field"""
    out = {}
    for p, b in F.bodies.items():
        m = b.get("mir")
        if not m:
            continue
        for w in m["writes"]:
            if w["adt"] == adt and w["field"] == field and (hows is None or w["how"] in hows):
                out.setdefault(F.short_of.get(p, p), []).append(w)
    return out


def mir_callers(F, callee_substr):
    out = {}
    for p, b in F.bodies.items():
        m = b.get("mir")
        if not m:
            continue
        for c in m["calls"]:
            name = c.get("resolved") or c.get("callee") or ""
            if callee_substr in name:
                out.setdefault(F.short_of.get(p, p), []).append(c)
    return out


PREFIX_MOD = "prefix_trie::prefix"          # the module that defines the Prefix trait and the shipped impls (incl. sub-modules)
ARENA_MOD = TABLE.rsplit("::", 1)[0]        # the module that defines the arena (Table / Node) and its unsafe accessor


def in_module(F, path, mod):
    """is the function / closure `path` written inside module `mod` (or a sub-module)?  Layering rules are stated over modules,
    not files: splitting a module into several files does not change them.  (A trait-impl method's own path starts with its
    self type; the impl block's path carries the module.)"""
    base = path.split("::{closure")[0]
    f = F.fns.get(base)
    m = (f or {}).get("module")
    if m is None:
        return base.startswith(mod + "::")
    return m == mod or m.startswith(mod + "::")


ITER_BENIGN = ("Item", "next", "size_hint")


def check_iterator_overrides(rep, F, rule, in_scope):
    """The traversal rules decide `next`.  Every other method of the Iterator family a crate iterator overrides (fold, nth, count,
    last, for_each, try_fold, advance_by, ...) replaces a provided method that is defined through `next`; it is accepted only if
    it is a delegation — its MIR calls `next` of the same type or an Iterator method of an inner iterator and contains no stack /
    arena access of its own (Vec::pop/push/extend, indexing, get_mut).  Anything else is a second traversal this check cannot
    relate to `next`: reported as unrecognised.  in_scope(short type name) selects the iterators of the calling property."""
    n = 0
    for i in F.impls:
        t = i.get("trait") or ""
        if t not in ("std::iter::Iterator", "core::iter::Iterator", "std::iter::DoubleEndedIterator", "core::iter::DoubleEndedIterator"):
            continue
        ty = F.short_ty(i["self_ty"])
        if not in_scope(ty):
            continue
        n += 1
        extra = [x["name"] for x in i["items"] if x["name"] not in ITER_BENIGN]
        if t.endswith("DoubleEndedIterator"):
            extra = [x["name"] for x in i["items"]]
        if not extra:
            rep.ok(rule, ty, "defines next only")
            continue
        for name in extra:
            short = "<%s as %s>::%s" % (ty, t.rsplit("::", 1)[1], name)
            path = F.short.get(short)
            calls = []
            if path:
                # the override with its closures and every crate function it reaches — except through a crate iterator's own
                # `next` / same-named method (that is the delegation)
                g = call_graph(F)
                seen, todo = set(), [path]
                while todo:
                    x = todo.pop()
                    if x in seen:
                        continue
                    seen.add(x)
                    for y in g.get(x, ()):
                        last = y.split("::{closure")[0].rsplit("::", 1)[-1]
                        if y != path and not y.startswith(path + "::{closure") and last in ("next", "next_back", name) and " as " in y:
                            continue
                        todo.append(y)
                for q in seen:
                    b = F.bodies.get(q)
                    if b and b.get("mir"):
                        calls += [(c.get("resolved") or c.get("callee") or "") for c in b["mir"]["calls"]]
            own = [c for c in calls if c.rsplit("::", 1)[-1] in ("pop", "push", "extend", "index", "index_mut", "get_mut", "insert", "remove", "swap_remove", "truncate", "drain")]
            deleg = [c for c in calls if "Iterator" in c or c.rsplit("::", 1)[-1] in ("next", "next_back", name)]
            if path and deleg and not own:
                rep.ok(rule, short, "override delegates to next / an inner iterator", sample={"calls": sorted(set(deleg))[:4]})
            else:
                rep.bad(rule, short, "override-not-delegating", "%s overrides the provided method `%s` with a traversal of its own (stack / arena access: %s): "
                        "the traversal rules decide `next` only and cannot relate this second traversal to it — the entries it yields "
                        "(for_each, count, last, sum, skip(n).for_each ... go through it) are not covered"
                        % (short, name, sorted(set(c.rsplit("::", 2)[-2] + "::" + c.rsplit("::", 1)[-1] for c in own)) or "none recognised"),
                        kind="unrecognised", config=F.config)
    return n


def functions_entered(paths):
    s = set()
    for p in paths:
        for e in p.events:
            if e.kind == "call":
                s.add(e["callee"])
    return s


def fn_params(F, path):
    """[(name, ty, self_kind)] of the parameters that have a pattern"""
    b = F.bodies[path]
    out = []
    for i, p in enumerate(b["thir"]["params"]):
        pat = p.get("pat")
        if pat is None:
            continue
        nm = pat["name"] if pat["k"] == "Bind" else "arg%d" % i
        out.append((nm, p["ty"], p.get("self_kind")))
    return out


def call_program(F, short, prefix=""):
    path = F.short[short]

    def prog(it):
        args = [absint.unknown(it, ty, prefix + nm) for nm, ty, _ in fn_params(F, path)]
        return it.run_fn(path, args)
    return prog


def entry_then(F, method_short, want_variant=None, then=None):
    """PrefixMap::entry(self, prefix) followed by a method of Entry / VacantEntry / OccupiedEntry.
    want_variant: None (method of Entry), "Vacant" or "Occupied" (method of the inner handle: paths on
    which entry() returned the other variant are pruned).  `then(it, handle_cell, result)` may run
    further steps."""
    entry_path = F.short["PrefixMap::entry"]
    mpath = F.short[method_short]

    def prog(it):
        eargs = [absint.unknown(it, ty, nm) for nm, ty, _ in fn_params(F, entry_path)]
        e = it.run_fn(entry_path, eargs)
        it.emit("handle", variant=e.variant)
        hcell = Cell(e, "entry")
        if want_variant is not None:
            if e.variant != want_variant:
                raise Infeasible("entry() returned the other variant")
            hcell = e.fields["0"]
        params = fn_params(F, mpath)
        args = []
        for i, (nm, ty, sk) in enumerate(params):
            if i == 0:
                t = F.types[ty]
                if t["t"] == "ref":
                    args.append(RefV(hcell, t["m"]))
                else:
                    args.append(it.force(hcell))
            else:
                args.append(absint.unknown(it, ty, "m." + nm))
        it.emit("method", name=method_short)
        r = it.run_fn(mpath, args)
        if then is not None:
            return then(it, hcell, r)
        return r
    return prog


def complete(paths):
    return [p for p in paths if p.result[0] == "ret"]


def report_unrecognised(rep, rule, where, paths, F):
    """fail closed on anything the interpreter could not follow"""
    n = 0
    for p in paths:
        if p.result[0] == "unrecognised":
            n += 1
            rep.bad(rule, where, "unrecognised:" + p.result[1][:80],
                    "%s: the interpreter cannot follow this code: %s" % (where, p.result[1]), kind="unrecognised",
                    config=F.config)
    return n


def inputs_str(p, limit=8):
    return ", ".join("%s=%s" % (k, v) for k, v in p.inputs[:limit])


def events_str(p, kinds=None, limit=12):
    ev = [e for e in p.events if (kinds is None or e.kind in kinds)]
    return [repr(e) for e in ev[:limit]]


def result_str(p):
    r = p.result
    if r[0] == "ret":
        return "ret " + repr(r[1])
    return " ".join(str(x) for x in r)


def recursion_summary_hook(F, short, max_depth=1):
    """hook for a self-recursive function: calls nested deeper than max_depth are replaced by the
    induction hypothesis "the callee satisfies the rule being checked": no events, unknown result."""
    path = F.short[short]
    out_ty = F.fns[path]["output"]

    def hook(it, callee, fnref, args, n, fr):
        if callee != path:
            return NotImplemented
        depth = sum(1 for f in it.frames if f.fn_path == path)
        if depth < max_depth:
            return NotImplemented
        it.rec_n = getattr(it, "rec_n", 0) + 1
        it.emit("recursive_call", callee=short, n=it.rec_n, args=[repr(a) for a in args])
        t = F.types[out_ty]
        if t["t"] == "tuple":
            cells = []
            for i, x in enumerate(t["a"]):
                # a returned closure / callback parameter is handed back unchanged
                same = [a for a in args if isinstance(a, absint.SymV) and a.ty == x]
                if F.types[x]["t"] == "param" and same:
                    cells.append(Cell(same[0], "r%d" % i))
                else:
                    cells.append(Cell(UnkV(x, "rec%d.%d" % (it.rec_n, i)), "rec%d.%d" % (it.rec_n, i)))
            return TupleV(cells)
        return absint.unknown(it, out_ty, "rec%d" % it.rec_n)
    return hook


# ---------------------------------------------------------------- slot graph of one path
class SlotGraph:
    """links / free list / fresh slots of one path, replayed from its events"""

    def __init__(self, p, free_suffix=".free"):
        self.initial = {}      # (table, parent, side) -> child     (as first observed)
        self.edges = {}        # current
        self.freed = []        # items pushed on the free list, in order
        self.free_states = []
        self.fresh = []        # keys obtained from free.pop / arena growth
        self.grown = []        # keys obtained by growing the arena
        self.popped_none = False
        self.worklists = {}    # local vec name -> items currently queued
        self.arena_cleared = False
        self.free_cleared = False
        self.order = []
        for e in p.events:
            k = e.kind
            if k == "link_known":
                key = (e["table"], e["node"], e["side"])
                self.initial.setdefault(key, e["child"])
                self.edges[key] = e["child"]
            elif k == "link_write":
                key = (e["table"], e["node"], e["side"])
                if e["new"] is None:
                    self.edges.pop(key, None)
                else:
                    self.edges[key] = e["new"]
            elif k == "vec_push":
                if e["vec"].endswith(free_suffix):
                    self.freed.append(e["item"])
                    self.free_states.append(e["state"])
                    self.order.append(("free.push", e["item"]))
                else:
                    self.worklists.setdefault(e["vec"], []).append(e["item"])
            elif k == "vec_pop":
                if e["vec"].endswith(free_suffix):
                    if e["item"] is None:
                        self.popped_none = True
                        self.order.append(("free.pop", None))
                    else:
                        self.fresh.append(e["item"])
                        self.order.append(("free.pop", e["item"]))
                else:
                    wl = self.worklists.get(e["vec"])
                    if wl and e["item"] in wl:
                        wl.remove(e["item"])
            elif k == "arena_push":
                self.fresh.append(e["key"])
                self.grown.append(e["key"])
                self.order.append(("arena.push", e["key"]))
            elif k == "arena_clear":
                self.arena_cleared = True
                self.edges = {}
                self.order.append(("arena.clear", None))
            elif k == "vec_clear" and e["vec"].endswith(free_suffix):
                self.free_cleared = True
                self.order.append(("free.clear", None))

    def queued(self):
        out = set()
        for items in self.worklists.values():
            out |= set(items)
        return out

    def incoming_live(self, x):
        return [(t, par, side) for (t, par, side), c in self.edges.items() if c == x and par not in self.freed]

    def slots(self):
        s = set(self.freed) | set(self.fresh)
        for (t, par, side), c in list(self.initial.items()) + list(self.edges.items()):
            s.add(c)
        return s

    def problems(self, entry_returns_fresh=False):
        """partition violations at the end of the path: list of (kind, slot, text)"""
        out = []
        if self.arena_cleared:
            return out
        seen = set()
        for x in self.freed:
            if x in seen:
                out.append(("double-free", x, "slot %s is pushed on the free list twice" % x))
            seen.add(x)
        initially_linked = set(self.initial.values())
        queued = self.queued()
        for x in sorted(self.slots()):
            inc = self.incoming_live(x)
            if x in self.freed:
                if inc:
                    out.append(("free-linked", x, "slot %s is pushed on the free list but still linked from %s" % (x, inc)))
                # what hangs below a freed slot must be re-linked, queued or freed
                for (t, par, side), c in self.edges.items():
                    if par == x and c not in self.freed and c not in queued and not self.incoming_live(c):
                        out.append(("orphan", c, "slot %s hangs below freed slot %s and is neither re-linked nor freed" % (c, x)))
                continue
            if x in self.fresh:
                if len(inc) != 1 and not entry_returns_fresh:
                    out.append(("fresh-unlinked", x, "new slot %s ends with %d links" % (x, len(inc))))
                continue
            if x in queued:
                continue
            if len(inc) == 0 and x in initially_linked:
                out.append(("leak", x, "slot %s was unlinked and is neither re-linked nor pushed on the free list" % x))
            elif len(inc) >= 2:
                out.append(("double-link", x, "slot %s ends linked from %s" % (x, inc)))
        if "0" in self.freed:
            out.append(("root-freed", "0", "the root slot is pushed on the free list"))
        for (t, par, side), c in self.edges.items():
            if c == "0":
                out.append(("root-linked", "0", "the root slot becomes a child of %s" % par))
        return out


# ---------------------------------------------------------------- _retain, bounded sub-tree
def call_graph(F):
    g = getattr(F, "_callgraph", None)
    if g is None:
        g = {}
        for p, b in F.bodies.items():
            m = b.get("mir")
            out = set()
            if m:
                for c in m["calls"]:
                    t = c.get("resolved") or c.get("callee")
                    if t and t in F.bodies:
                        out.add(t)
            for q in F.bodies:
                if q.startswith(p + "::{closure"):
                    out.add(q)
            g[p] = out
        F._callgraph = g
    return g


def reachable_from(F, path):
    g = call_graph(F)
    seen, todo = set(), [path]
    while todo:
        x = todo.pop()
        if x in seen:
            continue
        seen.add(x)
        todo.extend(g.get(x, ()))
    return seen


def retain_impl(F):
    """short name of the recursive worker behind PrefixMap::retain (found by role, not by name)"""
    r = F.short.get("PrefixMap::retain")
    if r is None:
        return None
    g = call_graph(F)
    for c in g.get(r, ()):
        if c in g.get(c, ()) and not c.endswith("}"):
            return F.short_of.get(c)
    return "PrefixMap::_retain" if "PrefixMap::_retain" in F.short else None


def retain_roles(F, path):
    """{parameter name: role} of the recursive retain worker, read off its own recursive calls (not off the names): the node is
    the first index parameter; a recursive call for a child passes `Some(node)` where the PARENT goes and a literal side where
    the PARENT SIDE goes, and hands its own parent / parent side on as GRAND-PARENT / GRAND-PARENT SIDE; the closure-typed
    parameter is the predicate."""
    from ..facts import find_all
    b = F.bodies[path]
    ps = [(q["pat"]["name"], q["pat"].get("id"), F.types[q["ty"]]) for q in b["thir"]["params"] if q.get("pat") and q["pat"]["k"] == "Bind"]
    if len(ps) != 7 or "PrefixMap<" not in ps[0][2]["s"]:
        return None
    idx = [x for x in ps[1:] if x[2]["s"] == "usize"]
    opts = [x for x in ps[1:] if x[2]["s"].replace("std::option::", "") == "Option<usize>"]
    bools = [x for x in ps[1:] if x[2]["s"] == "bool"]
    fn_ = [x for x in ps[1:] if x[2]["t"] == "param"]
    if not (len(idx) == 1 and len(opts) == 2 and len(bools) == 2 and len(fn_) == 1):
        return None
    pos = {x[0]: i for i, x in enumerate(ps)}
    by_id = {x[1]: x[0] for x in ps}
    par = par_side = grp = grp_side = None
    for n, _ in find_all(b["thir"]["body"], lambda n: n["k"] == "Call" and n["fun"]["k"] == "FnRef" and n["fun"]["path"] == path and len(n["args"]) == 7):
        a = n["args"]
        somes = [i for i, x in enumerate(a) if x["k"] == "Adt" and x.get("variant") == "Some" and x["fields"] and x["fields"][0]["e"]["k"] == "Var"
                 and by_id.get(x["fields"][0]["e"]["id"]) == idx[0][0]]
        lits = [i for i, x in enumerate(a) if x["k"] == "Lit" and isinstance(x.get("bool"), bool)]
        if len(somes) != 1 or len(lits) != 1:
            continue
        p_, s_ = ps[somes[0]][0], ps[lits[0]][0]
        g_ = [ps[i][0] for i, x in enumerate(a) if x["k"] == "Var" and by_id.get(x["id"]) == p_ and i != somes[0]]
        gs_ = [ps[i][0] for i, x in enumerate(a) if x["k"] == "Var" and by_id.get(x["id"]) == s_ and i != lits[0]]
        if len(g_) != 1 or len(gs_) != 1:
            return None
        if par not in (None, p_) or par_side not in (None, s_) or grp not in (None, g_[0]) or grp_side not in (None, gs_[0]):
            return None
        par, par_side, grp, grp_side = p_, s_, g_[0], gs_[0]
    if None in (par, par_side, grp, grp_side) or {par, grp} != {x[0] for x in opts} or {par_side, grp_side} != {x[0] for x in bools}:
        return None
    return {ps[0][0]: "self", idx[0][0]: "idx", par: "par", par_side: "par_right", grp: "grp", grp_side: "grp_right", fn_[0][0]: "f"}


def retain_program(F, height=2, with_context=True, both_grp_sides=False):
    """PrefixMap::_retain started at an inner node `idx` whose parent and grand-parent exist and are
    linked as the function's contract says (child(par,par_right)=idx, child(grp,grp_right)=par), over
    every sub-tree below idx of at most `height` levels (deeper links are absent: bounded-exhaustive)."""
    path = F.short[retain_impl(F)]
    params = fn_params(F, path)
    role = retain_roles(F, path)
    if role is None:
        # the bounded program sets up (idx, parent, parent side, grand-parent, grand-parent side); another contract needs a new program
        raise absint.Unrecognised("the parameters %s of the recursive retain worker %s could not be matched to the roles (node, parent, "
                                  "parent side, grand-parent, grand-parent side, predicate)" % ([nm for nm, _, _ in params], path))
    params = [(role.get(nm, nm), ty, sk) for nm, ty, sk in params]

    def prog(it):
        args = {}
        for nm, ty, sk in params:
            if nm in ("self", "f"):
                args[nm] = absint.unknown(it, ty, nm)
        args["par_right"] = args["grp_right"] = BoolV(False)
        mp = args["self"]
        table = it.force(it.force(mp.cell).fields["table"])
        ar = table.arena
        idx = absint.SymV("i")

        def some(v):
            return StructV(OPTION, "Some", {"0": Cell(v, "some")})

        def none():
            return StructV(OPTION, "None", {})
        if with_context:
            g, p = absint.SymV("g"), absint.SymV("p")
            gr = it.choose("bool:grp_right", [False, True] if both_grp_sides else [False])
            pr = it.choose("bool:par_right", [False, True])
            gn, pn = it.force(ar.node(g)), it.force(ar.node(p))
            gn.fields["right" if gr else "left"].value = some(p)
            pn.fields["right" if pr else "left"].value = some(idx)
            it.emit("link_known", table=ar.name, node="g", side="right" if gr else "left", child="p")
            it.emit("link_known", table=ar.name, node="p", side="right" if pr else "left", child="i")
            gp, pp, ip = ["%s[%s].prefix" % (ar.name, k) for k in ("g", "p", "i")]
            it.assume_rel(gp, pp, (absint.SUP, None, None))
            it.assume_rel(pp, ip, (absint.SUP, None, None))
            it.sides[(gp, pp)] = gr
            it.sides[(pp, ip)] = pr
            args["par"], args["par_right"] = some(p), BoolV(pr)
            args["grp"], args["grp_right"] = some(g), BoolV(gr)
        else:
            args["par"], args["grp"] = none(), none()
        args["idx"] = idx
        # depth bound: links of nodes `height` levels below idx are absent
        def leaf_axiom(it_, tyi, name):
            return None
        it.depth_bound = (ar.name, "i", height)
        return it.run_fn(path, [args[nm] for nm, _, _ in params])
    return prog


def retain_paths(ctx, F):
    """bounded-exhaustive exploration of _retain (shared by C04, C10, C15, C16, C20)"""
    out = []
    if retain_impl(F) is None:
        return out
    variants = [("ctx", dict(height=2, with_context=True, both_grp_sides=(ctx.tier == "thorough"))),
                ("root", dict(height=2, with_context=False))]
    for tag, kw in variants:
        key = (F.config, "_retain:" + tag)
        if key not in ctx._paths:
            ctx._paths[key] = absint.explore(F, None, None, {"loop_bound": 2, "inline_depth": 14},
                                             program=retain_program(F, **kw), max_paths=100000)
        out.append(("%s[%s]" % (retain_impl(F), tag), ctx._paths[key]))
    return out


# ---------------------------------------------------------------- certificate walk
def rel_of(p, a, b):
    if a == b:
        return "EQ"
    if (a, b) in p.rels:
        return p.rels[(a, b)]
    if (b, a) in p.rels:
        return {"EQ": "EQ", "SUP": "SUB", "SUB": "SUP", "DISJ": "DISJ"}[p.rels[(b, a)]]
    return None


def canon_prefix(table, key):
    return "zero()" if key == "0" else "%s[%s].prefix" % (table, key)


class Walk:
    """What the facts examined on one path say about query q in the (pre-state) trie below `start`:
    the chain of nodes covering q, the exact node, the valued covering nodes, and whether the end of the
    chain is certified (the link on q's side is known absent / known not to cover q)."""

    def __init__(self, p, table, start, q, start_covers=None):
        if table is None:
            table = "<no node examined>"     # the path never touched the arena: every fact about the trie is unexamined
        init = {}
        for k, v in p.inputs:
            if k.startswith("opt:" + table + "[") and k.rsplit(".", 1)[-1] in ("value", "left", "right"):
                key, field = k[len("opt:" + table + "["):].rsplit("].", 1)
                init.setdefault(key, {}).setdefault(field, v)
        child = {}
        written = set()
        for e in p.events:
            if e.kind == "link_write" and e["table"] == table:
                written.add((e["node"], e["side"]))
            if e.kind == "link_known" and e["table"] == table and (e["node"], e["side"]) not in written:
                child.setdefault((e["node"], e["side"]), e["child"])
                init.setdefault(e["node"], {}).setdefault(e["side"], "S")
        self.init = init
        self.chain = []
        self.exact = None
        self.valued = []
        self.certified = True
        self.why = ""
        self.end = None          # ("exact", X) | ("absent", X, side) | ("not-covering", X, side, child)
        x = start
        r0 = rel_of(p, canon_prefix(table, x), q)
        self.start_rel = r0
        if r0 is None and x == "0":
            r0 = self.start_rel = "SUP|EQ"     # the root covers every query (zero-length prefix)
        if r0 not in ("EQ", "SUP", "SUP|EQ"):
            self.covers = False
            return
        self.covers = True
        for _ in range(50):
            self.chain.append(x)
            st = init.get(x, {})
            v = st.get("value")
            if v == "S":
                self.valued.append(x)
            elif v is None:
                self.value_unknown = x
            r = rel_of(p, canon_prefix(table, x), q)
            if r == "EQ":
                self.exact = x
                self.end = ("exact", x)
                return
            sd = p.sides.get((canon_prefix(table, x), q))
            if sd is None:
                self.certified = False
                self.why = "the branch side of the query under node %s was never determined" % x
                return
            side = "right" if sd else "left"
            ls = st.get(side)
            if ls == "N":
                self.end = ("absent", x, side)
                return
            if ls is None:
                self.certified = False
                self.why = "the %s link of node %s (the query's side) was never examined" % (side, x)
                return
            c = child.get((x, side))
            rc = rel_of(p, canon_prefix(table, c), q)
            if rc in ("EQ", "SUP"):
                x = c
                continue
            if rc is None:
                self.certified = False
                self.why = "whether child %s covers the query was never examined" % c
                return
            self.end = ("not-covering", x, side, c, rc)
            return

    def value_known(self, x):
        return self.init.get(x, {}).get("value") in ("S", "N")


# ---------------------------------------------------------------- the primitives the interpreter models instead of interpreting
def _param_ids(F, path):
    out = []
    for p in F.bodies[path]["thir"]["params"]:
        pat = p.get("pat")
        out.append(pat["id"] if pat and pat["k"] == "Bind" else None)
    return out


def _vars(node):
    from ..facts import find_all
    return [n["id"] for n, ps in find_all(node, lambda n: n["k"] == "Var")]


def find_to_right(F):
    """the crate's branch-side function, found by its definition (not its name or module): a free generic function
    (branch: &P, child: &P) -> bool that evaluates to `child.is_bit_set(branch.prefix_len())` on every path"""
    from .. import absint
    found = []
    for f in F.lib_fns():
        if f.get("impl") or f.get("assoc") or len(f["inputs"]) != 2 or F.types[f["output"]]["s"] != "bool":
            continue
        t0, t1 = F.types[f["inputs"][0]], F.types[f["inputs"][1]]
        if not (t0["t"] == "ref" and t1["t"] == "ref" and t0["s"] == t1["s"]) or f["path"] not in F.bodies:
            continue
        if not any((p.get("trait") or "").endswith("prefix::Prefix") for p in f["preds"]):
            continue
        names = [q["pat"]["name"] for q in F.bodies[f["path"]]["thir"]["params"] if q.get("pat") and q["pat"]["k"] == "Bind"]
        if len(names) != 2:
            continue

        def hook(it, callee, fnref, args, n, fr):
            if callee.endswith("prefix::Prefix::is_bit_set"):
                return absint.SymV("is_bit_set(%s, %s)" % (it.psym(args[0]), repr(it.val_force(args[1]))))
            return NotImplemented
        try:
            ps = absint.explore(F, f["path"], absint.default_args(F, f["path"]), {"loop_bound": 1, "hooks": {"call": hook}}, max_paths=8)
        except Exception:
            continue
        want = "is_bit_set(*%s, prefix_len(*%s))" % (names[1], names[0])
        if ps and all(p.result[0] == "ret" and repr(p.result[1]).replace("?", "") == want for p in ps):
            found.append(f["path"])
    return found[0] if len(found) == 1 else None


def check_primitives(rep, F, rule, which):
    """definition checks for functions the interpreter treats as primitives (their bodies are not interpreted, so their meaning
    is pinned here): `to_right(branch, child) = child.is_bit_set(branch.prefix_len())`; `Table::index/index_mut` index the node
    vector with the given index (bounds-checked by Vec); `Table::get_mut` compares the index with the vector length before
    offsetting the pointer by exactly that index."""
    from ..facts import find_all, callee_of
    cfg = F.config
    if "to_right" in which:
        short = "to_right"
        path = getattr(F, "to_right_path", None)
        if path is None:
            rep.bad(rule, short, "missing", "no function with the definition `child.is_bit_set(branch.prefix_len())` (the branch side of a link) was found",
                    kind="unrecognised", config=cfg)
        else:
            rep.ok(rule, F.short_of.get(path, path), "child.is_bit_set(branch.prefix_len())", sample={"fn": path})
    for short, vec_callee, via in (("<Table as Index>::index", "<std::vec::Vec<T, A> as std::ops::Index<I>>::index", "as_ref"),
                                   ("<Table as IndexMut>::index_mut", "<std::vec::Vec<T, A> as std::ops::IndexMut<I>>::index_mut", "as_mut")):
        if "index" not in which:
            break
        b = F.body(short)
        if b is None:
            rep.bad(rule, short, "missing", "%s not found" % short, kind="unrecognised", config=cfg)
            continue
        ids = _param_ids(F, F.short[short])
        calls = [n for n, ps in find_all(b["thir"]["body"], lambda n: n["k"] == "Call")]
        vc = [n for n in calls if callee_of(n) == vec_callee]
        builtin = find_all(b["thir"]["body"], lambda n: n["k"] == "Index")
        ok = False
        if len(vc) == 1:
            ok = _vars(vc[0]["args"][1]) == [ids[1]] and _vars(vc[0]["args"][0]) == [ids[0]]
        elif builtin:
            ok = _vars(builtin[0][0]["idx"]) == [ids[1]]
        if ok:
            rep.ok(rule, short, "indexes the node vector with the given index")
        else:
            rep.bad(rule, short, "definition", "%s no longer is `self.%s()[index]` (bounds-checked element of the node vector at the given index)" % (short, via), config=cfg)
    if "get_mut" in which:
        gm = None
        for f in F.lib_fns():
            if f.get("unsafe") and f.get("impl") and F.adt_of(f["impl_self_ty"]) == TABLE and f["inputs"] and F.types[f["output"]]["t"] == "ref" \
                    and F.types[f["output"]]["m"] and F.adt_of(f["output"]) == NODE:
                gm = f
        if gm is None:
            rep.bad(rule, "Table::get_mut", "missing", "the unsafe &Table → &mut Node accessor was not found", kind="unrecognised", config=cfg)
        else:
            short = F.short_of[gm["path"]]
            body = F.bodies[gm["path"]]["thir"]["body"]
            ids = _param_ids(F, gm["path"])
            idx = ids[1]
            calls = [n for n, ps in find_all(body, lambda n: n["k"] == "Call")]
            names = [n["fun"].get("name") for n in calls if n["fun"]["k"] == "FnRef"]
            # form A: explicit bounds check + pointer offset by idx;  form B: Vec::index_mut / builtin index (bounds-checked by Vec)
            def norm_cond(c):
                """(binary comparison, negated?) behind any number of `!`"""
                neg = False
                while c["k"] == "Unary" and c.get("op") == "Not":
                    neg = not neg
                    c = c["e"]
                return (c, neg) if c["k"] == "Binary" and c["op"] in ("Ge", "Gt", "Lt", "Le") else (None, neg)

            def oob_branch(g):
                """the branch of `if` g taken exactly when idx >= len, or None if the test is not that comparison"""
                c, neg = norm_cond(g["cond"])
                li, ri = idx in _vars(c["l"]), idx in _vars(c["r"])
                if li == ri:
                    return None
                op = c["op"] if li else {"Ge": "Le", "Le": "Ge", "Gt": "Lt", "Lt": "Gt"}[c["op"]]     # normalise to  idx <op> len
                if neg:
                    op = {"Ge": "Lt", "Lt": "Ge", "Gt": "Le", "Le": "Gt"}[op]
                if op == "Ge":
                    return g["then"]
                if op == "Lt":
                    return g.get("else")
                return None
            guards = [n for n, ps in find_all(body, lambda n: n["k"] == "If" and norm_cond(n["cond"])[0] is not None)
                      if idx in _vars(n["cond"])]
            panics = False
            for g in guards:
                br = oob_branch(g)
                if br is not None and any(c["fun"].get("name") in ("panic_fmt", "panic", "panic_display") for c, _ in
                                          find_all(br, lambda n: n["k"] == "Call" and n["fun"]["k"] == "FnRef")):
                    panics = True
            len_cmp = "len" in names
            adds = [n for n in calls if n["fun"]["k"] == "FnRef" and n["fun"]["name"] in ("add", "offset")]
            add_ok = all(_vars(a["args"][1]) == [idx] for a in adds)
            form_a = panics and len_cmp and adds and add_ok
            form_b = any(n in ("index_mut", "get_mut", "get_unchecked_mut") for n in names) and "get_unchecked_mut" not in names and not adds
            if form_a or form_b:
                rep.ok(rule, short, "bounds-checked element access at the given index", sample={"form": "explicit check + ptr.add(idx)" if form_a else "Vec indexing"})
            else:
                rep.bad(rule, short, "definition", "%s no longer bounds-checks the index against the vector length before handing out `&mut Node` at exactly "
                        "that index (calls: %s)" % (short, names), config=cfg)
