"""C10 — sub-tree selection and bulk removal act on exactly the covered entries.

R10.1 the start list computed for children / children_mut / into_children / PrefixSet::children is the
      root of the sub-tree the selector covers, derived by the certificate walk (exact node; or the first
      node the selector strictly covers on its branch side; or nothing), and the iterator returned is the
      stack walker over that table with exactly that start list (its traversal is C03);
R10.3 remove_children: zero-length selector → clear; otherwise the same sub-tree root is detached from its
      parent and only slots of that sub-tree are emptied / freed, every child of an emptied slot is queued
      or freed (work-list template), nothing happens when the selector covers nothing;
R10.4 retain (bounded-exhaustive sub-trees of _retain, and PrefixMap::retain / PrefixSet::retain from the
      root): the predicate is called exactly once per stored entry with that entry's own prefix and value,
      after the predicates of all entries below it (post-order), and an entry loses its value iff its
      predicate call returned false.
"""
from .. import absint
from . import common as C
from . import c01

OPTS = {"loop_bound": 3}
ASSUMES = ["C15 well-formed pre-state", "C17 prefix algebra (relation oracle)", "pt/models.py std model",
           "retain: sub-trees of at most 2 levels below the start node, no value-less leaves below it"]
LEVEL_TEXT = __doc__
DEEPER = False     # thorough tier: more configurations and the mutant corpus, same unrolling (path count grows too fast)

# function -> (stack walker type, its table field); the start list is decided by the certificate walk.  Wrappers around the
# walker and its other fields (markers) are not part of the rule.
CHILDREN = {
    "PrefixMap::children": ("Iter", "Some(&*{T})"),
    "PrefixMap::children_mut": ("IterMut", "Some(&*{T})"),
    "PrefixMap::into_children": ("IntoIter", "nodes<{T}>"),
    "PrefixSet::children": ("Iter", "Some(&*{T})"),
}


def declare(rep):
    rep.rule("R10.1", "children*: iterator over the table with start list = root of the sub-tree the selector covers (certificate walk)")
    rep.rule("R10.3", "remove_children: detaches exactly that sub-tree; only its slots are emptied/freed; zero-length → clear")
    rep.rule("R10.4", "retain: predicate once per entry, own (prefix, value), post-order; value removed iff predicate false")
    rep.rule("R01.6", "(shared with C01) no slot leaves the tree while it may still hold entries")


def subtree_root(W):
    """key of the root of the sub-tree covered by the query, None if nothing, 'uncertified' if unknown"""
    if not W.covers:
        return "uncertified"
    if W.exact is not None:
        return W.exact
    if not W.certified:
        return "uncertified"
    if W.end[0] == "not-covering" and W.end[4] == "SUB":
        return W.end[3]
    return None


def run_config(ctx, rep, cfg, F):
    n = 0
    # ---- R10.1
    for short, fmt in CHILDREN.items():
        if short not in F.short:
            rep.bad("R10.1", short, "missing", "%s not found" % short, kind="unrecognised", config=cfg)
            continue
        paths = ctx.paths(F, short, OPTS)
        C.report_unrecognised(rep, "R10.1", short, paths, F)
        q = c01.query_name(F, F.short[short])
        for p in paths:
            if p.result[0] == "panic":
                rep.bad("R10.1", short, "panics", "%s can panic: %s" % (short, C.result_str(p)), config=cfg)
        for p in C.complete(paths):
            n += 1
            T = c01.table_of(p)
            got = repr(p.result[1]).replace("?", "")
            ins = C.inputs_str(p, 14)
            if T is None:
                rep.bad("R10.1", short, "unjustified:no-facts", "%s returns %s without examining the map" % (short, got), config=cfg)
                continue
            W = C.Walk(p, T, "0", q)
            root = subtree_root(W)
            if root == "uncertified":
                rep.bad("R10.1", short, "unjustified", "%s returns %s although %s (chain %s; inputs: %s)" % (short, got, W.why or W.start_rel, W.chain, ins), config=cfg)
                continue
            from . import c03
            st = c03.innermost(None, p.result[1])
            want = "%s{table: %s, nodes: [%s]}" % (fmt[0], fmt[1].format(T=T), root if root else "")
            if st is not None:
                got = "%s{table: %s, nodes: %s}" % (st.adt.split("::")[-1], repr(st.fields["table"].value).replace("?", ""), repr(st.fields["nodes"].value).replace("?", ""))
            if got != want:
                rep.bad("R10.1", short, "wrong start:" + ("none" if root is None else "node"),
                        "%s: the sub-tree covered by the selector is rooted at %s (chain %s, end %s), so the result must be %s; the function "
                        "returns %s (inputs: %s)" % (short, root, W.chain, W.end, want, got, ins), config=cfg)
            else:
                rep.ok("R10.1", short, "start=" + ("none" if root is None else "exact" if root == W.exact else "below"),
                       sample={"chain": W.chain, "end": str(W.end), "result": got} if root and root != W.exact else None)
    # ---- R10.3
    for short in ("PrefixMap::remove_children", "PrefixSet::remove_children"):
        if short not in F.short:
            rep.bad("R10.3", short, "missing", "%s not found" % short, kind="unrecognised", config=cfg)
            continue
        paths = ctx.paths(F, short, OPTS)
        C.report_unrecognised(rep, "R10.3", short, paths, F)
        q = c01.query_name(F, F.short[short])
        for p in paths:
            if p.result[0] == "panic":
                rep.bad("R10.3", short, "panics", "%s can panic: %s (inputs: %s)" % (short, C.result_str(p), C.inputs_str(p, 12)), config=cfg)
            if p.result[0] not in ("ret", "cut"):
                continue
            n += 1
            ins = C.inputs_str(p, 14)
            g = C.SlotGraph(p)
            T = c01.table_of(p)
            zero = [v for k, v in p.inputs if k.startswith("rel:") and "zero()" in k and q in k]
            if g.arena_cleared:
                if not (zero and zero[0] == "EQ"):
                    rep.bad("R10.3", short, "clear-without-zero", "%s empties the map although the selector is not known to be the zero-length "
                            "prefix (inputs: %s)" % (short, ins), config=cfg)
                elif not g.free_cleared or not any(o == ("arena.push", "0") for o in g.order):
                    rep.bad("R10.3", short, "partial-clear", "%s empties the arena for a zero-length selector but %s: slots released by earlier removals would be "
                            "handed out again although they no longer exist (later insertions corrupt or panic)"
                            % (short, "keeps the free list" if not g.free_cleared else "does not re-create the root"), config=cfg)
                else:
                    rep.ok("R10.3", short, "zero-length selector clears arena, free list and root")
                continue
            touched = [(e.kind, e["node"]) for e in p.events if e.kind in ("value_write", "link_write", "prefix_write")]
            if T is None:
                if touched or g.freed:
                    rep.bad("R10.3", short, "unjustified:no-facts", "%s changes the map without examining it" % short, config=cfg)
                continue
            W = C.Walk(p, T, "0", q)
            root = subtree_root(W)
            if p.result[0] == "cut" and not touched:
                continue        # the descent itself was cut: no claim was made on this path
            if root == "uncertified":
                if touched or g.freed:
                    rep.bad("R10.3", short, "unjustified", "%s removes although %s (inputs: %s)" % (short, W.why or W.start_rel, ins), config=cfg)
                elif p.result[0] == "ret":
                    rep.bad("R10.3", short, "unjustified-noop", "%s does nothing although %s (inputs: %s)" % (short, W.why or W.start_rel, ins), config=cfg)
                continue
            if root is None:
                if touched or g.freed:
                    rep.bad("R10.3", short, "removes-uncovered", "%s: the selector covers nothing (chain %s, end %s) but the map is changed: %s "
                            "(inputs: %s)" % (short, W.chain, W.end, touched[:4], ins), config=cfg)
                else:
                    rep.ok("R10.3", short, "nothing covered: no effect")
                continue
            # the detached link must be the one leading to `root`
            clears = [e for e in p.events if e.kind == "link_write" and e["new"] is None and e["old"] == root]
            outside = [nd for kind, nd in touched if not (nd == root or nd.startswith(root + ".")) and not any(
                e.kind == "link_write" and e["node"] == nd and e["old"] == root and e["new"] is None for e in p.events)]
            freed_outside = [x for x in g.freed if not (x == root or x.startswith(root + "."))]
            if not clears:
                rep.bad("R10.3", short, "subtree-not-detached", "%s: the covered sub-tree is rooted at %s but the link to it is not cleared "
                        "(link writes: %s; inputs: %s)" % (short, root, [repr(e) for e in p.ev("link_write")][:4], ins), config=cfg)
            elif outside or freed_outside:
                rep.bad("R10.3", short, "touches-outside", "%s: the covered sub-tree is rooted at %s but slots outside it are changed/freed: %s %s "
                        "(inputs: %s)" % (short, root, outside[:4], freed_outside[:4], ins), config=cfg)
            elif root not in g.freed and root not in g.queued():
                rep.bad("R10.3", short, "root-not-freed", "%s: sub-tree root %s is detached but neither emptied nor queued" % (short, root), config=cfg)
            else:
                # work-list template: every emptied slot had its value taken, both links taken, and was freed
                bad_t = None
                for x in g.freed:
                    st = p.final.get(T, {}).get(x, {})
                    if st.get("value") != "N" or st.get("left") != "N" or st.get("right") != "N":
                        bad_t = (x, st)
                if bad_t:
                    rep.bad("R10.3", short, "slot-not-emptied", "%s frees slot %s but leaves %s in it" % (short, bad_t[0], bad_t[1]), config=cfg)
                else:
                    rep.ok("R10.3", short, "detaches exactly the covered sub-tree",
                           sample={"root": root, "freed": g.freed, "queued": sorted(g.queued())} if len(g.freed) > 1 else None)
    # ---- R10.4
    retain_sets = list(C.retain_paths(ctx, F))
    for short, tbl in (("PrefixMap::retain", "self.table"), ("PrefixSet::retain", "self.0.table")):
        if short in F.short:
            key = (cfg, "retain-root;" + short)
            if key not in ctx._paths:
                path = F.short[short]
                ctx._paths[key] = absint.explore(F, path, absint.default_args(F, path),
                                                 {"loop_bound": 2, "inline_depth": 14, "depth_bound": (tbl, "0", 2)}, max_paths=100000)
            retain_sets.append((short, ctx._paths[key]))
        else:
            rep.bad("R10.4", short, "missing", "%s not found" % short, kind="unrecognised", config=cfg)
    n_cb = 0
    for where, paths in retain_sets:
        C.report_unrecognised(rep, "R10.4", where, paths, F)
        for p in paths:
            if p.result[0] == "panic":
                rep.bad("R10.4", where, "panics", "%s can panic: %s (inputs: %s)" % (where, C.result_str(p), C.inputs_str(p, 12)), config=cfg)
        for p in C.complete(paths):
            n += 1
            T = c01.table_of(p)
            ins = C.inputs_str(p, 18)
            init = {}
            for k, v in p.inputs:
                if k.startswith("opt:" + str(T) + "[") and k.endswith("].value"):
                    init[k[len("opt:" + T + "["):-len("].value")]] = v
            start = "i" if where.endswith("]") else "0"
            valued = [k for k, v in init.items() if v == "S" and (k == start or k.startswith(start + "."))]
            cbs = p.ev("user_callback")
            seen = []
            ok = True
            for e in cbs:
                a = [x.replace("?", "") for x in e["args"]]
                # set adaptor passes only the prefix
                node = None
                for k in init:
                    if a and a[0] == "&%s[%s].prefix" % (T, k):
                        node = k
                if node is None or (len(a) > 1 and a[1] != "&%s[%s].value.some" % (T, node)):
                    rep.bad("R10.4", where, "predicate-args", "%s calls the predicate with %s, which is not the (prefix, value) of one stored "
                            "entry (inputs: %s)" % (where, a, ins), config=cfg)
                    ok = False
                    continue
                if init.get(node) != "S":
                    rep.bad("R10.4", where, "predicate-on-valueless", "%s calls the predicate for node %s, which holds no value" % (where, node), config=cfg)
                    ok = False
                seen.append((node, e["n"]))
            nodes_seen = [k for k, _ in seen]
            for k in valued:
                c = nodes_seen.count(k)
                if c != 1:
                    rep.bad("R10.4", where, "predicate-count=%d" % c, "%s evaluates the predicate %d times for stored entry %s "
                            "(callbacks: %s; inputs: %s)" % (where, c, k, nodes_seen, ins), config=cfg)
                    ok = False
            # post-order
            for i, k in enumerate(nodes_seen):
                for j in range(i + 1, len(nodes_seen)):
                    if nodes_seen[j].startswith(k + "."):
                        rep.bad("R10.4", where, "not-post-order", "%s evaluates the predicate of %s before that of %s below it" % (where, k, nodes_seen[j]), config=cfg)
                        ok = False
            # removed iff false
            results = {}
            for k, v in p.inputs:
                if k.startswith("bool:cb"):
                    results[int(k[len("bool:cb"):].split("(")[0])] = v
            removed = {e["node"] for e in p.events if e.kind == "value_write" and e["old"] == "S" and e["new"] == "N"}
            for node, num in seen:
                res = results.get(num)
                if res is False and node not in removed:
                    rep.bad("R10.4", where, "rejected-but-kept", "%s: the predicate rejected %s but its value stays (inputs: %s)" % (where, node, ins), config=cfg)
                    ok = False
                if res is True and node in removed:
                    rep.bad("R10.4", where, "accepted-but-removed", "%s: the predicate accepted %s but its value is removed (inputs: %s)" % (where, node, ins), config=cfg)
                    ok = False
            extra = removed - set(nodes_seen)
            if extra:
                rep.bad("R10.4", where, "removed-without-predicate", "%s removes the value of %s without asking the predicate" % (where, sorted(extra)), config=cfg)
                ok = False
            c01.lost_entries(rep, F, where, p)
            if ok:
                n_cb += len(seen)
                rep.ok("R10.4", where, "entries=%d" % len(valued),
                       sample={"entries": valued, "order": nodes_seen, "removed": sorted(removed)} if len(valued) >= 3 and len(removed) >= 1 else None)
    rep.floor("predicate evaluations checked (%s)" % cfg, n_cb, 20000)
    rep.floor("selection / removal paths checked (%s)" % cfg, n, 12000)


def finalize(ctx, rep):
    F = ctx.main()
    sets = C.retain_paths(ctx, F)
    deep = 0
    for where, paths in sets:
        for p in C.complete(paths):
            if sum(1 for k, v in p.inputs if k.endswith("].value") and v == "S") >= 4:
                deep += 1
    rep.canary("R10.4 explores sub-trees with at least four stored entries (%d paths)" % deep, deep > 0)
