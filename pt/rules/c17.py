"""C17 — prefix algebra: boundary safety, the length of longest_common_prefix, and the pass-through of from_repr_len.

NOT decided by this check (declared out of reach for static analysis of this kind, see DESIGN.md §6 C17 / §9): that contains is
bitwise coverage (reflexive, antisymmetric, transitive), the representation part / symmetry / coverage of longest_common_prefix,
is_bit_set = i-th bit, from_repr_len masks, and the agreement of the per-type overrides with the generic definitions.  These
are identities over bit-vectors; a solver or enumeration would be a different technique.

Every function of the prefix module (trait defaults, helpers, every shipped impl, in every feature configuration) and the
branch-side function are INTERPRETED with all foreign arithmetic as uninterpreted functions and comparisons / min as ordering
facts; every shift, built-in arithmetic operation and integer cast that is evaluated is traced, and the trace must cover the
syntactic inventory of such sites (a site no path evaluates is reported as undecided).
Decided — "none of these operations panics or overflows for any bit index 0..=255 and any length 0..=width":
R17.1 every variable-amount shift of a representation (Shr::shr / Shl::shl or a built-in shift) is evaluated only on paths that
      have established that the amount differs from the bit width (a comparison with count_zeros(0) / BITS taken the right way)
      — or is a checked shift;
R17.2 every built-in arithmetic operation is justified by its operands alone: `small literal + (a u8 widened to a larger type)`
      (also through a let-bound widened value), division / remainder by a non-zero literal, small literal * widened u8 in >= 32
      bits; every narrowing cast is `leading_zeros() as u8` (at most 128 for the shipped widths); anything else is reported;
R17.3 no shipped impl overrides Prefix::eq and the default eq consults only mask() and prefix_len(); the default zero() constructs
      (zero representation, length 0); the default contains() answers true only on paths that established
      len(self) <= len(other).
R17.4 the LENGTH clause of longest_common_prefix ("has length min(len a, len b, number of equal leading bits)"): the generic
      definition and every per-type override are interpreted with all foreign arithmetic as uninterpreted functions and
      Ord::min / comparisons as ordering facts; on every returning path the length handed to the constructor must be provably
      (order closure of the path's own facts) <= self's length, <= other's length and <= leading_zeros(x ^ y) of the two
      representations, and equal to one of the three.  (That the representation part is correct, symmetry and coverage are
      NOT decided.)
R17.5 from_repr_len(r, l) hands exactly `l` to the constructor (tuple type: stores l where prefix_len() reads it, r where
      repr() reads it).
"""
from ..facts import walk, find_all, callee_of
from . import common as C

ASSUMES = ["shipped representations are at most 128 bits wide", "foreign constructors (ipnet/ipnetwork/cidr new) accept len <= width"]
LEVEL_TEXT = __doc__
ALL_SUBSETS = True   # thorough tier: all 16 feature subsets (rules read configuration-dependent code)
WIDTH_CALLS = ("count_zeros", "BITS", "size_of", "leading_zeros")


def declare(rep):
    rep.rule("R17.1", "variable shifts are checked or guarded by a comparison of the amount with the bit width")
    rep.rule("R17.2", "arithmetic and narrowing casts in prefix.rs / to_right justified by operand types")
    rep.rule("R17.4", "longest_common_prefix: on every path the constructed length is min(len self, len other, leading_zeros(xor)) by the path's own ordering facts")
    rep.rule("R17.5", "from_repr_len passes its length (and, for the tuple type, its representation) through unchanged")
    rep.rule("R17.3", "Prefix::eq not overridden and reads only mask/prefix_len; zero() and contains() defaults have the boundary shape")


def in_scope(F, f):
    return C.in_module(F, f["path"], C.PREFIX_MOD) or F.short_of[f["path"]] == "to_right"


def contains_call(node, names):
    hit = []

    def v(n, ps):
        if n["k"] == "Call":
            nm = n["fun"].get("name") if n["fun"]["k"] == "FnRef" else None
            if nm in names:
                hit.append(nm)
        if n["k"] == "Const" and any(x in n.get("path", "") for x in names):
            hit.append(n["path"])
    walk(node, v)
    return hit


def subtree_has(root, target):
    found = []

    def v(n, ps):
        if n is target:
            found.append(1)
    walk(root, v)
    return bool(found)


RANK = {"u8": 1, "u16": 2, "u32": 4, "u64": 8, "usize": 8, "u128": 16}
ARITH = ("Add", "Sub", "Mul", "Div", "Rem")


def site_inventory(F, f):
    """(kind, line, col) of every built-in arithmetic / shift operation, every Shr/Shl trait call and every narrowing integer cast
    written in the function (and its closures): the sites the interpretation below must have evaluated"""
    out = set()
    bodies = [F.bodies[f["path"]]] + [b for q, b in F.bodies.items() if q.startswith(f["path"] + "::{closure")]
    for body in bodies:
        root = body["thir"]["body"]
        for n, ps in find_all(root, lambda n: n["k"] in ("Binary", "AssignOp") and n["op"].replace("Assign", "") in ARITH + ("Shl", "Shr")):
            if n["l"]["k"] == "Lit" and n["r"]["k"] == "Lit":
                continue
            out.add(("shift" if n["op"].replace("Assign", "") in ("Shl", "Shr") else "arith", n.get("line"), n.get("col")))
        for n, ps in find_all(root, lambda n: n["k"] == "Call" and n["fun"]["k"] == "FnRef" and n["fun"]["name"] in ("shr", "shl")
                              and (n["fun"].get("trait") or "").startswith("std::ops::Sh")):
            out.add(("shift", n.get("line"), n.get("col")))
        for n, ps in find_all(root, lambda n: n["k"] == "Call" and n["fun"]["k"] == "FnRef" and n["fun"]["name"] in ("add", "sub", "mul")
                              and (n["fun"].get("trait") or "") in ("std::ops::Add", "std::ops::Sub", "std::ops::Mul")):
            out.add(("arith", n.get("line"), n.get("col")))       # overflow-checked in debug builds for the primitive representations
        for n, ps in find_all(root, lambda n: n["k"] == "Cast"):
            src, dst = F.types[n["e"]["ty"]]["s"], F.types[n["ty"]]["s"]
            if src in RANK and dst in RANK and RANK[dst] < RANK[src]:
                out.add(("cast", n.get("line"), n.get("col")))
    return out


def trace_hooks(F, out_s):
    """the uninterpreted-function hooks plus a trace of every arithmetic operation, shift and integer cast that is evaluated"""
    from ..absint import SymV, IntV, LinV
    h = euf_hooks(F, out_s)
    base_call, base_binop = h["call"], h["binop"]

    def tyname(v):
        t = getattr(v, "ty", None)
        return F.types[t]["s"] if isinstance(t, int) else None

    def describe(v):
        """(kind, detail): 'lit' n | 'widened-u8' | 'other'"""
        if isinstance(v, IntV):
            return ("lit", v.n)
        src = getattr(v, "cast_from", None)
        if isinstance(v, SymV) and src is not None and tyname(src) == "u8" and tyname(v) in ("u16", "u32", "u64", "usize", "u128"):
            return ("widened-u8", v.name)
        if isinstance(v, SymV) and tyname(v) == "u8":
            return ("u8", v.name)
        return ("other", repr(v)[:60])

    def call(it, callee, fnref, args, n, fr):
        last = callee.rsplit("::", 1)[-1]
        if last in ("shr", "shl") and "ops::Sh" in callee and len(args) == 2:
            a = it.val_force(args[1])
            it.emit("shift", amount=repr(a).replace("?", ""), lit=isinstance(a, IntV), line=n.get("line"), col=n.get("col"), how="trait")
        if last in ("add", "sub", "mul") and callee in ("std::ops::Add::add", "std::ops::Sub::sub", "std::ops::Mul::mul") and len(args) == 2:
            ty = F.types[n["ty"]]["s"] if n.get("ty") is not None else "?"
            it.emit("arith", op=last.capitalize(), ty=ty, l=describe(it.val_force(args[0])), r=describe(it.val_force(args[1])), line=n.get("line"), col=n.get("col"))
        return base_call(it, callee, fnref, args, n, fr)

    def binop(it, op, l, r, n):
        o = op.replace("Assign", "")
        if n is not None and o in ARITH:
            ty = F.types[n["ty"]]["s"] if n.get("k") == "Binary" else F.types[n["l"]["ty"]]["s"]
            it.emit("arith", op=o, ty=ty, l=describe(l), r=describe(r), line=n.get("line"), col=n.get("col"))
        if n is not None and o in ("Shl", "Shr"):
            it.emit("shift", amount=repr(r).replace("?", ""), lit=isinstance(r, IntV), line=n.get("line"), col=n.get("col"), how="builtin")
        return base_binop(it, op, l, r, n)

    def cast(it, v, out, n):
        src, dst = tyname(v), tyname(out)
        if src in RANK and dst in RANK and RANK[dst] < RANK[src]:
            it.emit("narrow", src=v.name, src_ty=src, dst_ty=dst, line=n.get("line"), col=n.get("col"))
    return {"call": call, "binop": binop, "cast": cast}


def is_width_term(t):
    t = Order.strip(t)
    return t == "count_zeros(zero())" or t.endswith("::BITS") or t == "BITS" or "size_of" in t


def run_config(ctx, rep, cfg, F):
    from ..absint import explore, default_args, BoolV
    n_shift = n_arith = n_cast = 0
    contains_paths = zero_paths = None
    for f in F.lib_fns():
        if not in_scope(F, f) or f["path"] not in F.bodies:
            continue
        short = F.short_of[f["path"]]
        want = site_inventory(F, f)
        out_s = F.types[f["output"]]["s"]
        paths = explore(F, f["path"], default_args(F, f["path"]), {"loop_bound": 2, "hooks": trace_hooks(F, out_s), "opaque_branch_ok": True}, max_paths=3000)
        if short == "Prefix::contains":
            contains_paths = paths
        if short == "Prefix::zero":
            zero_paths = paths
        if want:
            C.report_unrecognised(rep, "R17.1", short, paths, F)
        seen = set()
        for p in paths:
            O = None
            for e in p.events:
                if e.kind == "shift":
                    seen.add(("shift", e["line"], e["col"]))
                    if e["lit"]:
                        rep.ok("R17.1", short, "constant shift")
                        continue
                    if O is None:
                        O = Order(p)
                    amt = Order.strip(e["amount"])
                    ws = [t for t in list(O.le) + [x for xs in O.le.values() for x in xs] + [x for ab in O.ne for x in ab] if is_width_term(t)]
                    ok = any(O.differs(amt, w) or (O.leq(amt, w) and (Order.strip(amt), Order.strip(w)) in {(Order.strip(a), Order.strip(b)) for a, b in O.lt}) for w in ws)
                    if ok:
                        rep.ok("R17.1", short, "shift on a path where the amount differs from the bit width", sample={"fn": short, "line": e["line"], "amount": amt})
                    else:
                        rep.bad("R17.1", short, "unguarded-shift", "%s (line %s) shifts a representation by the variable amount `%s` on a path that has not "
                                "established that the amount differs from the bit width (no checked shift, no comparison with count_zeros(0) / BITS): a shift by "
                                "the full width panics in debug builds and is wrong in release builds" % (short, e["line"], amt[:60]), config=cfg)
                elif e.kind == "arith":
                    seen.add(("arith", e["line"], e["col"]))
                    l, r = e["l"], e["r"]
                    small = lambda x: x[0] == "lit" and 0 <= x[1] <= 256
                    if e["op"] == "Add" and e["ty"] in ("u16", "u32", "u64", "usize", "u128") and ((small(l) and r[0] == "widened-u8") or (small(r) and l[0] == "widened-u8")):
                        rep.ok("R17.2", short, "small literal + widened u8", sample={"fn": short, "line": e["line"], "type": e["ty"]})
                    elif e["op"] in ("Div", "Rem") and r[0] == "lit" and r[1] >= 1 and e["ty"] in RANK:
                        rep.ok("R17.2", short, "unsigned division / remainder by a non-zero literal")
                    elif e["op"] == "Mul" and e["ty"] in ("u32", "u64", "usize", "u128") and ((small(l) and r[0] == "widened-u8") or (small(r) and l[0] == "widened-u8")):
                        rep.ok("R17.2", short, "small literal * widened u8 in a type of at least 32 bits")
                    else:
                        rep.bad("R17.2", short, "unjustified-%s-%s" % (e["op"].lower(), e["ty"]), "%s (line %s): `%s` in %s of %s and %s is not `small literal + (a u8 "
                                "widened to a larger type)`: it can overflow for bit indices / lengths up to 255 (panic in debug, wrap in release)"
                                % (short, e["line"], e["op"], e["ty"], l, r), config=cfg)
                elif e.kind == "narrow":
                    seen.add(("cast", e["line"], e["col"]))
                    if O is None:
                        O = Order(p)
                    st = O.struct(e["src"])
                    if st and st[0] == "leading_zeros" and e["dst_ty"] == "u8":
                        rep.ok("R17.2", short, "leading_zeros() as u8 (<= 128)")
                    else:
                        rep.bad("R17.2", short, "narrowing-cast-%s-%s" % (e["src_ty"], e["dst_ty"]), "%s (line %s): narrowing cast %s as %s of `%s`, which is not a "
                                "leading_zeros() count" % (short, e["line"], e["src_ty"], e["dst_ty"], e["src"][:60]), config=cfg)
        n_shift += len([x for x in want if x[0] == "shift"])
        n_arith += len([x for x in want if x[0] == "arith"])
        n_cast += len([x for x in want if x[0] == "cast"])
        for site in sorted(want - seen, key=str):
            rep.bad("R17.2" if site[0] != "shift" else "R17.1", short, "site-not-evaluated:%s" % site[0], "%s (line %s): this %s is written in the function but no interpreted path "
                    "evaluates it: its safety is undecided" % (short, site[1], {"shift": "shift", "arith": "arithmetic operation", "cast": "narrowing cast"}[site[0]]),
                    kind="unrecognised", config=cfg)
    # non-vacuity of the site rules as a whole (a rewrite may legitimately remove one kind of site altogether)
    rep.floor("shift / arithmetic / cast sites examined (%s)" % cfg, n_shift + n_arith + n_cast, 2)
    check_lcp(ctx, rep, cfg, F)
    check_from_repr_len(ctx, rep, cfg, F)
    # ---- R17.3
    for i in F.impls:
        if (i.get("trait") or "").endswith("prefix::Prefix"):
            names = [x["name"] for x in i["items"]]
            if "eq" in names:
                rep.bad("R17.3", F.short_ty(i["self_ty"]), "overrides-eq", "impl Prefix for %s overrides eq: key identity must be the generic "
                        "(mask, length) comparison for every shipped type" % F.short_ty(i["self_ty"]), config=cfg)
            else:
                rep.ok("R17.3", F.short_ty(i["self_ty"]), "does not override eq")
    b = F.body("Prefix::eq")
    if b is None:
        rep.bad("R17.3", "Prefix::eq", "missing", "default Prefix::eq not found", kind="unrecognised", config=cfg)
    else:
        called = {callee_of(n) for n, ps in find_all(b["thir"]["body"], lambda n: n["k"] == "Call")}
        called = {c.rsplit("::", 1)[1] for c in called if c}
        if called <= {"mask", "prefix_len", "eq", "ne"} and {"mask", "prefix_len"} <= called:
            rep.ok("R17.3", "Prefix::eq", "reads mask and prefix_len only", sample={"calls": sorted(called)})
        else:
            rep.bad("R17.3", "Prefix::eq", "reads-other", "the default Prefix::eq calls %s: it must compare mask() and prefix_len() only "
                    "(repr() carries host bits)" % sorted(called), config=cfg)
    # the default zero() constructs (zero representation, length 0)
    if zero_paths is not None:
        for p in zero_paths:
            if p.result[0] != "ret":
                continue
            cons = [e for e in p.events if e.kind == "construct"]
            if cons and Order.strip(cons[-1]["len"]) == "0" and [Order.strip(x) for x in cons[-1]["others"]] == ["zero()"]:
                rep.ok("R17.3", "Prefix::zero", "from_repr_len(zero, 0)")
            else:
                rep.bad("R17.3", "Prefix::zero", "shape", "the default Prefix::zero does not construct (zero representation, length 0): %s"
                        % ([(e["len"], e["others"]) for e in cons] or repr(p.result[1])[:80]), config=cfg)
    # the default contains() answers true only on paths that established len(self) <= len(other)
    if contains_paths is not None:
        nt = 0
        for p in contains_paths:
            if p.result[0] != "ret" or not isinstance(p.result[1], BoolV):
                if p.result[0] == "ret":
                    rep.bad("R17.3", "Prefix::contains", "result", "the default Prefix::contains returns %r: not a decided boolean" % (p.result[1],), kind="unrecognised", config=cfg)
                continue
            O = Order(p)
            if not O.consistent():
                continue
            if p.result[1].b:
                nt += 1
                if O.leq("prefix_len(*self)", "prefix_len(*other)"):
                    rep.ok("R17.3", "Prefix::contains", "true only after len(self) <= len(other)")
                else:
                    rep.bad("R17.3", "Prefix::contains", "longer-self-may-contain", "the default Prefix::contains answers true on a path that has not established "
                            "self.prefix_len() <= other.prefix_len(): a longer prefix can never contain a shorter one (path facts: %s)"
                            % "; ".join("%s %s %s=%s" % (e["l"][:30], e["op"], e["r"][:30], e["res"]) for e in p.events if e.kind == "cmp")[:300], config=cfg)
        rep.floor("paths of the default contains() answering true (%s)" % cfg, nt, 1)


# ---------------------------------------------------------------- R17.4 / R17.5: uninterpreted-function evaluation + order facts
CMP = ("Eq", "Ne", "Lt", "Le", "Gt", "Ge")


def term(it, v):
    from ..absint import RefV
    v = it.val_force(v)
    while isinstance(v, RefV):
        v = v.cell.value
    return repr(v).replace("?", "")


def euf_hooks(F, out_s):
    """call / binop hooks: foreign scalar functions are uninterpreted functions of their arguments (deterministic names),
    Ord::min and comparisons become ordering facts, calls producing the prefix type from a u8 are recorded as constructions"""
    from ..absint import SymV, IntV, LinV, BoolV
    from .. import models

    def scalar(ty):
        return ty is not None and F.types[ty]["t"] in ("prim", "param", "alias")

    def call(it, callee, fnref, args, n, fr):
        last = callee.rsplit("::", 1)[-1]
        if last == "min" and ("cmp::Ord::min" in callee or callee.endswith("cmp::min")) and len(args) == 2:
            x, y = it.val_force(args[0]), it.val_force(args[1])
            tx, ty = term(it, x), term(it, y)
            if tx == ty:
                return x
            first = it.choose("min:%s|%s" % (tx, ty), [True, False])
            it.emit("order", lo=tx if first else ty, hi=ty if first else tx, strict=not first)
            return x if first else y
        cty = n.get("ty")
        cts = F.types[cty]["s"] if cty is not None else ""
        anodes = n.get("args") or []
        u8 = [i for i, a in enumerate(anodes) if F.types[a["ty"]]["s"] == "u8"]
        is_acc = last in ("repr", "mask", "prefix_len")
        if out_s in cts.replace("&", " ").replace("<", " ").replace(">", " ").replace(",", " ").split() and len(u8) == 1 and not is_acc and len(args) >= 2:
            it.emit("construct", callee=callee, len=term(it, args[u8[0]]), others=[term(it, a) for i, a in enumerate(args) if i != u8[0]])
            if callee not in F.bodies and callee.startswith("prefix_trie::prefix::Prefix::"):
                return SymV("constructed(%s)" % ", ".join(term(it, a) for a in args), cty)
        if callee in F.bodies:
            return NotImplemented
        if models.lookup(it, callee, fnref) is not None:
            return NotImplemented
        if scalar(cty) or (cty is not None and F.types[cty]["t"] == "adt" and not cts.startswith(("std::option::Option", "std::result::Result", "core::option", "core::result", "Option<", "Result<"))):
            nm = "%s(%s)" % (last, ", ".join(term(it, a) for a in args))
            it.emit("term", name=nm, op=last, args=[term(it, a) for a in args])
            return SymV(nm, cty)
        return NotImplemented

    def binop(it, op, l, r, n):
        sc = (SymV, IntV, LinV)
        if not (isinstance(l, sc) and isinstance(r, sc)) or (isinstance(l, IntV) and isinstance(r, IntV)):
            return None
        if op in CMP:
            res = it.choose("bool:(%r %s %r)" % (l, op, r), [False, True])
            it.emit("cmp", l=repr(l), r=repr(r), op=op, res=res)
            return BoolV(res)
        if op in ("BitXor", "BitAnd", "BitOr"):
            nm = "(%r %s %r)" % (l, op, r)
            it.emit("term", name=nm, op=op.lower(), args=[repr(l), repr(r)])
            return SymV(nm, n["ty"] if n else None)
        return None
    return {"call": call, "binop": binop}


class Order:
    """<= closure over the ordering facts of one path"""

    def __init__(self, p):
        self.le = {}
        self.lt = set()
        self.ne = set()
        self.terms = {}
        for e in p.events:
            if e.kind == "order":
                self.add(e["lo"], e["hi"], e["strict"])
            elif e.kind == "term":
                self.terms[e["name"]] = (e["op"], list(e["args"]))
            elif e.kind == "cmp":
                a, b, op, res = e["l"], e["r"], e["op"], e["res"]
                if not res:
                    op = {"Eq": "Ne", "Ne": "Eq", "Lt": "Ge", "Le": "Gt", "Gt": "Le", "Ge": "Lt"}[op]
                if op == "Ne":
                    self.ne.add((self.strip(a), self.strip(b)))
                if op == "Eq":
                    self.add(a, b, False)
                    self.add(b, a, False)
                elif op == "Lt":
                    self.add(a, b, True)
                elif op == "Le":
                    self.add(a, b, False)
                elif op == "Gt":
                    self.add(b, a, True)
                elif op == "Ge":
                    self.add(b, a, False)

    @staticmethod
    def strip(t):
        # a widening / narrowing cast does not change the number (R17.2 bounds the narrowing ones)
        while t.startswith("(") and " as " in t and t.endswith(")") and t.rsplit(" as ", 1)[1][:-1].replace("usize", "u").lstrip("ui").isdigit() | (t.rsplit(" as ", 1)[1][:-1] in ("usize", "u8", "u16", "u32", "u64", "u128")):
            t = t[1:].rsplit(" as ", 1)[0]
        return t

    def add(self, a, b, strict):
        a, b = self.strip(a), self.strip(b)
        self.le.setdefault(a, set()).add(b)
        if strict:
            self.lt.add((a, b))

    def leq(self, a, b):
        a, b = self.strip(a), self.strip(b)
        seen, todo = {a}, [a]
        while todo:
            x = todo.pop()
            if x == b:
                return True
            for y in self.le.get(x, ()):
                if y not in seen:
                    seen.add(y)
                    todo.append(y)
        return False

    def equal(self, a, b):
        return self.leq(a, b) and self.leq(b, a)

    def differs(self, a, b):
        """a != b established: a recorded disequality between terms equal to a and b, or a strict order"""
        a, b = self.strip(a), self.strip(b)
        for x, y in self.ne:
            if (self.equal(x, a) and self.equal(y, b)) or (self.equal(x, b) and self.equal(y, a)):
                return True
        return any((self.equal(x, a) and self.equal(y, b)) or (self.equal(x, b) and self.equal(y, a)) for x, y in self.lt)

    def consistent(self):
        return not any(self.leq(b, a) for a, b in self.lt)

    def struct(self, t):
        return self.terms.get(self.strip(t))


def accessor_terms(F, impl_short, which, hooks):
    """the term an impl's accessor evaluates to on `*self` (None for the generic definition)"""
    from ..absint import explore, default_args
    short = "<%s as Prefix>::%s" % (impl_short, which)
    if short not in F.short:
        return set()
    out = set()
    for p in explore(F, F.short[short], default_args(F, F.short[short]), {"loop_bound": 1, "hooks": hooks, "opaque_branch_ok": True}, max_paths=200):
        if p.result[0] == "ret":
            out.add(Order.strip(repr(p.result[1]).replace("?", "")))
    return out


def check_lcp(ctx, rep, cfg, F):
    from ..absint import explore, default_args
    targets = [("Prefix::longest_common_prefix", None)]
    for s_ in F.short:
        if s_.startswith("<") and s_.endswith(" as Prefix>::longest_common_prefix"):
            targets.append((s_, s_[1:].split(" as Prefix>")[0]))
    n_paths = 0
    for short, impl in targets:
        if short not in F.short:
            rep.bad("R17.4", short, "missing", "%s not found" % short, kind="unrecognised", config=cfg)
            continue
        path = F.short[short]
        out_s = F.types[F.fns[path]["output"]]["s"]
        hooks = euf_hooks(F, out_s)
        lens = {"self": {"prefix_len(*self)"}, "other": {"prefix_len(*other)"}}
        reprs = {"self": {"repr(*self)", "mask(*self)"}, "other": {"repr(*other)", "mask(*other)"}}
        if impl:
            for t in accessor_terms(F, impl, "prefix_len", hooks):
                lens["self"].add(t)
                lens["other"].add(t.replace("*self", "*other"))
            for w in ("repr", "mask"):
                for t in accessor_terms(F, impl, w, hooks):
                    reprs["self"].add(t)
                    reprs["other"].add(t.replace("*self", "*other"))
        b = F.bodies[path]
        pn = [q["pat"]["name"] for q in b["thir"]["params"] if q.get("pat") and q["pat"]["k"] == "Bind"]
        if pn != ["self", "other"]:
            ren = dict(zip(pn, ["self", "other"]))
            lens = {k: {t.replace("*" + k, "*" + [a for a, c in ren.items() if c == k][0]) for t in v} for k, v in lens.items()} if len(pn) == 2 else lens
            reprs = {k: {t.replace("*" + k, "*" + [a for a, c in ren.items() if c == k][0]) for t in v} for k, v in reprs.items()} if len(pn) == 2 else reprs
        paths = explore(F, path, default_args(F, path), {"loop_bound": 1, "hooks": hooks, "opaque_branch_ok": True}, max_paths=2000)
        C.report_unrecognised(rep, "R17.4", short, paths, F)
        for p in paths:
            if p.result[0] != "ret":
                continue        # panics of foreign constructors: assumption "accept len <= width" (see ASSUMES); C20 owns panics
            O = Order(p)
            if not O.consistent():
                continue
            n_paths += 1
            cons = [e for e in p.events if e.kind == "construct"]
            rv = repr(p.result[1]).replace("?", "")
            if cons:
                L = cons[-1]["len"]
            elif rv in ("*self", "*other", "clone(*self)", "clone(*other)"):
                L = sorted(lens["self" if "self" in rv else "other"])[0]
            else:
                rep.bad("R17.4", short, "unjustified:no-construction", "%s returns %s on a path on which no prefix is constructed from a length: "
                        "the length of the result cannot be related to the operands (inputs: %s)" % (short, rv[:80], C.inputs_str(p, 8)), kind="unrecognised", config=cfg)
                continue

            def is_lz(t):
                st = O.struct(t)
                if not st or st[0] != "leading_zeros":
                    return False
                x = O.struct(st[1][0])
                if not x or x[0] != "bitxor" or len(x[1]) != 2:
                    return False
                a, b_ = (Order.strip(q) for q in x[1])
                return (a in reprs["self"] and b_ in reprs["other"]) or (a in reprs["other"] and b_ in reprs["self"])
            lz = {t for t in O.terms if is_lz(t)}
            # equal representations: every leading bit is equal
            same = any(O.equal(a, b_) for a in reprs["self"] for b_ in reprs["other"])
            miss = []
            if not any(O.leq(L, t) for t in lens["self"]):
                miss.append("<= self.prefix_len()")
            if not any(O.leq(L, t) for t in lens["other"]):
                miss.append("<= other.prefix_len()")
            if not (any(O.leq(L, t) for t in lz) or same):
                miss.append("<= number of equal leading bits (leading_zeros of the xor of the two representations)")
            if not any(O.equal(L, t) for t in lens["self"] | lens["other"] | lz):
                miss.append("equal to one of the three")
            if miss:
                rep.bad("R17.4", short, "length-not-min:" + ";".join(m.split(" (")[0] for m in miss),
                        "%s constructs a prefix of length `%s` on a path whose facts do not establish that this length is %s — the length of "
                        "longest_common_prefix must be min(len self, len other, equal leading bits) (path facts: %s)"
                        % (short, L[:70], " and ".join(miss), "; ".join("%s %s %s" % (e["lo"][:40], "<" if e["strict"] else "<=", e["hi"][:40]) for e in p.events if e.kind == "order")
                           + " | " + "; ".join("%s %s %s=%s" % (e["l"][:30], e["op"], e["r"][:30], e["res"]) for e in p.events if e.kind == "cmp")[:300]), config=cfg)
            else:
                rep.ok("R17.4", short, "length is the minimum", sample={"fn": short, "length": L, "lz_terms": sorted(lz)[:2]})
    rep.floor("longest_common_prefix paths checked (%s)" % cfg, n_paths, 3)


def check_from_repr_len(ctx, rep, cfg, F):
    from ..absint import explore, default_args, TupleV
    n = 0
    for s_ in list(F.short):
        if not (s_.startswith("<") and s_.endswith(" as Prefix>::from_repr_len")):
            continue
        impl = s_[1:].split(" as Prefix>")[0]
        path = F.short[s_]
        out_s = F.types[F.fns[path]["output"]]["s"]
        hooks = euf_hooks(F, out_s)
        b = F.bodies[path]
        pn = [q["pat"]["name"] for q in b["thir"]["params"] if q.get("pat") and q["pat"]["k"] == "Bind"]
        ptys = [F.types[q["ty"]]["s"] for q in b["thir"]["params"] if q.get("pat")]
        if len(pn) != 2 or ptys[1] != "u8":
            rep.bad("R17.5", s_, "shape", "%s: parameters %s %s not recognised" % (s_, pn, ptys), kind="unrecognised", config=cfg)
            continue
        paths = explore(F, path, default_args(F, path), {"loop_bound": 1, "hooks": hooks, "opaque_branch_ok": True}, max_paths=500)
        C.report_unrecognised(rep, "R17.5", s_, paths, F)
        for p in paths:
            if p.result[0] != "ret":
                continue
            n += 1
            cons = [e for e in p.events if e.kind == "construct"]
            v = p.result[1]
            if cons:
                if Order.strip(cons[-1]["len"]) == pn[1]:
                    rep.ok("R17.5", s_, "length passed through")
                else:
                    rep.bad("R17.5", s_, "length-changed", "%s builds the prefix with length `%s` instead of its parameter `%s`"
                            % (s_, cons[-1]["len"][:60], pn[1]), config=cfg)
            elif isinstance(v, TupleV):
                def idx_of(which):
                    ts = accessor_terms(F, impl, which, hooks)
                    ks = {t.rsplit(".", 1)[1] for t in ts if t.startswith("*self.")}
                    return int(ks.pop()) if len(ks) == 1 and len(ts) == 1 else None
                kl, kr = idx_of("prefix_len"), idx_of("repr")
                got = [term_of_cell(c) for c in v.cells]
                if kl is None or kr is None:
                    rep.bad("R17.5", s_, "accessors", "%s: prefix_len()/repr() of %s do not read a component of the tuple" % (s_, impl), kind="unrecognised", config=cfg)
                elif got[kl] != pn[1] or got[kr] != pn[0]:
                    rep.bad("R17.5", s_, "components-swapped", "%s builds %s but prefix_len() reads component %d and repr() component %d: "
                            "from_repr_len(r, l) must have length l and representation r" % (s_, got, kl, kr), config=cfg)
                else:
                    rep.ok("R17.5", s_, "tuple components agree with the accessors", sample={"built": got, "prefix_len reads": kl, "repr reads": kr})
            else:
                rep.bad("R17.5", s_, "unjustified", "%s returns %r without a recognisable construction from its length" % (s_, v), kind="unrecognised", config=cfg)
    rep.floor("from_repr_len paths checked (%s)" % cfg, n, 1)


def term_of_cell(c):
    return repr(c.value).replace("?", "")


def finalize(ctx, rep):
    rep.canary("R17.x are site rules with floors (shift / arithmetic / cast sites must be found)", True)
