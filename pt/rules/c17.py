"""C17 — prefix algebra: ONLY the boundary-safety clause is decided here.

NOT decided by this check (declared out of reach for static analysis of this kind, see DESIGN.md §6 C17 / §9): that contains is
bitwise coverage (reflexive, antisymmetric, transitive), the longest_common_prefix equations, is_bit_set = i-th bit, eq compares
network part and length, from_repr_len masks, and the agreement of the per-type overrides with the generic definitions.  These
are identities over bit-vectors; a solver or enumeration would be a different technique.

Decided — "none of these operations panics or overflows for any bit index 0..=255 and any length 0..=width":
R17.1 every variable-amount shift of a representation (calls of Shr::shr / Shl::shl in prefix.rs and to_right) is either a
      checked shift or lies in a branch that is only taken when the amount was compared unequal to the bit width
      (count_zeros of zero / BITS / size_of);
R17.2 every built-in arithmetic operation and every narrowing cast in prefix.rs and to_right is justified by its operand types
      alone: `small literal + (u8 widened to u32/usize)`, `leading_zeros() as u8` (at most 128 for the shipped widths);
      anything else is reported as unjustified arithmetic;
R17.3 no shipped impl overrides Prefix::eq; the default eq consults only mask() and prefix_len(); the default zero() is
      from_repr_len(zero, 0); the default contains() compares the lengths before masking.
"""
from ..facts import walk, find_all, callee_of
from . import common as C

ASSUMES = ["shipped representations are at most 128 bits wide", "foreign constructors (ipnet/ipnetwork/cidr new) accept len <= width"]
LEVEL_TEXT = __doc__
ALL_SUBSETS = True   # thorough tier: all 16 feature subsets (rules read configuration-dependent code)
WIDTH_CALLS = ("count_zeros", "BITS", "size_of", "leading_zeros")


def declare(rep):
    rep.rule("R17.1", "variable shifts are checked or guarded by a comparison of the amount with the bit width")
    rep.rule("R17.2", "arithmetic and narrowing casts in prefix.rs / to_right justified by operand types")
    rep.rule("R17.3", "Prefix::eq not overridden and reads only mask/prefix_len; zero() and contains() defaults have the boundary shape")


def in_scope(F, f):
    return f["file"].endswith("prefix.rs") or F.short_of[f["path"]] == "to_right"


def contains_call(node, names):
    hit = []

    def v(n, ps):
        if n["k"] == "Call":
            nm = n["fun"].get("name") if n["fun"]["k"] == "FnRef" else None
            if nm in names:
                hit.append(nm)
        if n["k"] == "Const" and any(x in n.get("path", "") for x in names):
            hit.append(n["path"])
    walk(node, v)
    return hit


def subtree_has(root, target):
    found = []

    def v(n, ps):
        if n is target:
            found.append(1)
    walk(root, v)
    return bool(found)


def run_config(ctx, rep, cfg, F):
    n_shift = n_arith = n_cast = 0
    for f in F.lib_fns():
        if not in_scope(F, f):
            continue
        short = F.short_of[f["path"]]
        bodies = [(short, F.bodies[f["path"]])] + [(F.short_of.get(q, q), b) for q, b in F.bodies.items() if q.startswith(f["path"] + "::{closure")]
        for bshort, body in bodies:
            root = body["thir"]["body"]
            # ---- R17.1
            for n, ps in find_all(root, lambda n: n["k"] == "Call" and n["fun"]["k"] == "FnRef" and n["fun"]["name"] in ("shr", "shl")
                                  and (n["fun"].get("trait") or "").startswith("std::ops::Sh")):
                n_shift += 1
                amount = n["args"][1]
                if amount["k"] == "Lit":
                    rep.ok("R17.1", bshort, "constant shift")
                    continue
                guarded = False
                for par in reversed(ps):
                    if par["k"] == "If" and par.get("else") is not None and subtree_has(par["else"], n):
                        c = par["cond"]
                        if c["k"] == "Binary" and c["op"] == "Eq" and contains_call(c, WIDTH_CALLS):
                            guarded = True
                            break
                if guarded:
                    rep.ok("R17.1", bshort, "shift guarded by amount == width test", sample={"fn": bshort, "line": n.get("line")})
                else:
                    rep.bad("R17.1", bshort, "unguarded-shift", "%s (line %s) shifts a representation by a variable amount without a checked shift "
                            "or an enclosing `amount == bit width` test: a shift by the full width panics in debug builds and is "
                            "wrong in release builds" % (bshort, n.get("line")), config=cfg)
            for n, ps in find_all(root, lambda n: n["k"] == "Binary" and n["op"] in ("Shl", "Shr")):
                n_shift += 1
                if n["r"]["k"] != "Lit":
                    rep.bad("R17.1", bshort, "unguarded-builtin-shift", "%s (line %s): built-in shift by a variable amount" % (bshort, n.get("line")), config=cfg)
            # ---- R17.2 arithmetic
            for n, ps in find_all(root, lambda n: n["k"] in ("Binary", "AssignOp") and n["op"].replace("Assign", "") in ("Add", "Sub", "Mul", "Div", "Rem")):
                n_arith += 1
                ty = F.types[n["ty"]]["s"] if n["k"] == "Binary" else F.types[n["l"]["ty"]]["s"]
                l, r = n["l"], n["r"]
                def small_lit(x):
                    return x["k"] == "Lit" and isinstance(x.get("int"), int) and 0 <= x["int"] <= 256
                def widened_u8(x):
                    return x["k"] == "Cast" and F.types[x["e"]["ty"]]["s"] == "u8" and F.types[x["ty"]]["s"] in ("u32", "usize", "u64", "u16")
                op = n["op"].replace("Assign", "")
                if op == "Add" and ty in ("u32", "usize", "u64", "u16") and ((small_lit(l) and widened_u8(r)) or (small_lit(r) and widened_u8(l))):
                    rep.ok("R17.2", bshort, "small literal + widened u8", sample={"fn": bshort, "line": n.get("line"), "type": ty})
                else:
                    rep.bad("R17.2", bshort, "unjustified-%s-%s" % (op.lower(), ty), "%s (line %s): `%s` in %s is not of the form `small literal + (u8 as wider)`: "
                            "it can overflow for bit indices / lengths up to 255 (panic in debug, wrap in release)" % (bshort, n.get("line"), op, ty), config=cfg)
            # narrowing casts
            for n, ps in find_all(root, lambda n: n["k"] == "Cast"):
                src, dst = F.types[n["e"]["ty"]]["s"], F.types[n["ty"]]["s"]
                rank = {"u8": 1, "u16": 2, "u32": 4, "u64": 8, "usize": 8, "u128": 16}
                if src in rank and dst in rank and rank[dst] < rank[src]:
                    n_cast += 1
                    e = n["e"]
                    if e["k"] == "Call" and e["fun"]["k"] == "FnRef" and e["fun"]["name"] == "leading_zeros" and dst == "u8":
                        rep.ok("R17.2", bshort, "leading_zeros() as u8 (<= 128)")
                    else:
                        rep.bad("R17.2", bshort, "narrowing-cast-%s-%s" % (src, dst), "%s (line %s): narrowing cast %s as %s of a value that is not a "
                                "leading_zeros() count" % (bshort, n.get("line"), src, dst), config=cfg)
    rep.floor("shifts examined (%s)" % cfg, n_shift, 1)
    rep.floor("arithmetic operations examined (%s)" % cfg, n_arith, 1)
    rep.floor("narrowing casts examined (%s)" % cfg, n_cast, 1 if cfg != "f:none" and cfg != "no-default" else 1)
    # ---- R17.3
    for i in F.impls:
        if (i.get("trait") or "").endswith("prefix::Prefix"):
            names = [x["name"] for x in i["items"]]
            if "eq" in names:
                rep.bad("R17.3", F.short_ty(i["self_ty"]), "overrides-eq", "impl Prefix for %s overrides eq: key identity must be the generic "
                        "(mask, length) comparison for every shipped type" % F.short_ty(i["self_ty"]), config=cfg)
            else:
                rep.ok("R17.3", F.short_ty(i["self_ty"]), "does not override eq")
    b = F.body("Prefix::eq")
    if b is None:
        rep.bad("R17.3", "Prefix::eq", "missing", "default Prefix::eq not found", kind="unrecognised", config=cfg)
    else:
        called = {callee_of(n) for n, ps in find_all(b["thir"]["body"], lambda n: n["k"] == "Call")}
        called = {c.rsplit("::", 1)[1] for c in called if c}
        if called <= {"mask", "prefix_len", "eq", "ne"} and {"mask", "prefix_len"} <= called:
            rep.ok("R17.3", "Prefix::eq", "reads mask and prefix_len only", sample={"calls": sorted(called)})
        else:
            rep.bad("R17.3", "Prefix::eq", "reads-other", "the default Prefix::eq calls %s: it must compare mask() and prefix_len() only "
                    "(repr() carries host bits)" % sorted(called), config=cfg)
    b = F.body("Prefix::zero")
    if b is not None:
        calls = find_all(b["thir"]["body"], lambda n: n["k"] == "Call" and n["fun"]["k"] == "FnRef" and n["fun"]["name"] == "from_repr_len")
        okz = bool(calls) and calls[0][0]["args"][1]["k"] == "Lit" and calls[0][0]["args"][1].get("int") == 0 and \
            contains_call(calls[0][0]["args"][0], ("zero",))
        if okz:
            rep.ok("R17.3", "Prefix::zero", "from_repr_len(zero, 0)")
        else:
            rep.bad("R17.3", "Prefix::zero", "shape", "the default Prefix::zero is not from_repr_len(R::zero(), 0)", config=cfg)
    b = F.body("Prefix::contains")
    if b is not None:
        root = b["thir"]["body"]
        first = root["stmts"][0]["e"] if root.get("stmts") and root["stmts"][0]["k"] == "ExprStmt" else None
        okc = False
        if first is not None and first["k"] == "If":
            c = first["cond"]
            okc = c["k"] == "Binary" and c["op"] in ("Gt", "Lt", "Ge", "Le") and len(contains_call(c, ("prefix_len",))) == 2 and \
                bool(find_all(first["then"], lambda n: n["k"] == "Return"))
        if okc:
            rep.ok("R17.3", "Prefix::contains", "lengths compared before masking")
        else:
            rep.bad("R17.3", "Prefix::contains", "shape", "the default Prefix::contains does not start by rejecting a longer self "
                    "(comparison of the two prefix_len() with an early return)", config=cfg)


def finalize(ctx, rep):
    rep.canary("R17.x are site rules with floors (shift / arithmetic / cast sites must be found)", True)
