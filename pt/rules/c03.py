"""C03 — every iterator yields each entry exactly once in lexicographic prefix order.

The stack walkers (map::Iter, IntoIter, IterMut) and every wrapper around them (Keys, Values, ValuesMut, IntoKeys,
IntoValues, set::Iter, set::IntoIter) are interpreted for one step on a stack holding one known node, over all
abstract input classes (value / left / right presence; table present or not for the defaultable iterators):
R03.1/2 the step pushes exactly the node's right child, then its left child (so the 0-branch is visited first and a
        node precedes everything below it), nothing else, and only links of the popped node;
R03.3/4 it yields the tabulated projection of *that* node iff the node holds a value — prefix and value of the same
        node — and otherwise goes on with the stack (no early end while the stack is non-empty);
R03.5   on an empty stack it returns None and pushes nothing (fused);
R03.6   every whole-map / whole-set / view constructor starts the walker on the right table with exactly the start
        list [root] (resp. the view's node); derived Clone copies table reference and stack.
"Exactly once" additionally needs the arena to be a tree (C15/C16, assumed); the induction over the traversal is not
mechanised.
"""
from .. import absint
from ..absint import Cell, RefV, StructV, SymV, UnkV, VecObj, VecV, OPTION
from . import common as C

ASSUMES = ["C15 / C16: the arena is a tree (each slot linked once)", "pt/models.py std model"]
LEVEL_TEXT = __doc__
DEEPER = False     # thorough tier: more configurations and the mutant corpus, same unrolling (path count grows too fast)

# next(): projection of the popped node n in table {T}
WALKERS = {
    "<map::Iter as Iterator>::next": "Some((&{T}[n].prefix, &{T}[n].value.some))",
    "<IterMut as Iterator>::next": "Some((&{T}[n].prefix, &mut {T}[n].value.some))",
    "<map::IntoIter as Iterator>::next": "Some(({T}[n].prefix, {T}[n].value.some))",
    "<Keys as Iterator>::next": "Some(&{T}[n].prefix)",
    "<Values as Iterator>::next": "Some(&{T}[n].value.some)",
    "<ValuesMut as Iterator>::next": "Some(&mut {T}[n].value.some)",
    "<IntoKeys as Iterator>::next": "Some({T}[n].prefix)",
    "<IntoValues as Iterator>::next": "Some({T}[n].value.some)",
    "<set::Iter as Iterator>::next": "Some(&{T}[n].prefix)",
    "<set::IntoIter as Iterator>::next": "Some({T}[n].prefix)",
}
# constructors: expected start key ("0" or "loc")
CTORS = {
    "PrefixMap::iter": "0", "PrefixMap::keys": "0", "PrefixMap::values": "0", "PrefixMap::iter_mut": "0", "PrefixMap::values_mut": "0",
    "PrefixMap::into_keys": "0", "PrefixMap::into_values": "0", "<PrefixMap as IntoIterator>::into_iter": "0",
    "<&PrefixMap as IntoIterator>::into_iter": "0", "PrefixSet::iter": "0", "<PrefixSet as IntoIterator>::into_iter": "0",
    "<&PrefixSet as IntoIterator>::into_iter": "0",
    "TrieView::iter": "loc", "TrieView::keys": "loc", "TrieView::values": "loc", "<TrieView as IntoIterator>::into_iter": "loc",
    "TrieViewMut::iter_mut": "loc", "TrieViewMut::values_mut": "loc", "<TrieViewMut as IntoIterator>::into_iter": "loc",
}
CLONES = ["<map::Iter as Clone>::clone", "<Keys as Clone>::clone", "<Values as Clone>::clone", "<map::IntoIter as Clone>::clone",
          "<IntoKeys as Clone>::clone", "<IntoValues as Clone>::clone", "<set::Iter as Clone>::clone", "<set::IntoIter as Clone>::clone"]


def declare(rep):
    rep.rule("R03.1", "one step pushes exactly [right child, left child] of the popped node, in this order")
    rep.rule("R03.4", "one step yields the projection of the popped node iff it holds a value (prefix and value of the same node)")
    rep.rule("R03.5", "empty stack: None, nothing pushed")
    rep.rule("R03.7", "(shared with C16) no mutator links a slot twice or leaves a freed slot linked")
    rep.rule("R03.6", "constructors start the walker on the right table with the start list [root] / [view node]; clones are derived")


def innermost(it, v):
    """the struct that owns the `nodes` stack inside an iterator value (through any single-iterator wrapper field)"""
    for _ in range(6):
        if isinstance(v, StructV) and "nodes" in v.fields:
            return v
        if isinstance(v, StructV):
            nxt = None
            cand = [k for k in ("inner", "0") if k in v.fields] or list(v.fields)
            for k in cand:
                x = it.force(v.fields[k]) if it else v.fields[k].value
                if isinstance(x, StructV) and x.adt not in (absint.OPTION,):
                    nxt = x
                    break
            if nxt is None:
                return None
            v = nxt
        else:
            return None
    return None


def step_program(F, short, stack):
    path = F.short[short]

    def prog(it):
        params = C.fn_params(F, path)
        selfv = absint.unknown(it, params[0][1], "self")
        st = innermost(it, it.force(selfv.cell))
        if st is None:
            raise absint.Unrecognised("%s: no stack field found" % short)
        st.fields["nodes"].value = VecV(VecObj("self.nodes", [SymV(x) for x in stack], None))
        return it.run_fn(path, [selfv])
    return prog


def table_present(p):
    for k, v in p.inputs:
        if k.startswith("opt:") and k.endswith("table"):
            return v == "S"
    return True


def run_config(ctx, rep, cfg, F, walkers=None, ctors=None, extras=True, floor=90):
    n = 0
    tys = {k[1:].split(" as ")[0] for k in (walkers if walkers is not None else WALKERS) if k.startswith("<")}
    if extras:
        tys |= {"Keys", "Values", "IntoKeys", "IntoValues", "ValuesMut", "set::Iter", "set::IntoIter"}
    else:
        tys |= {"ValuesMut"}
    n_it = C.check_iterator_overrides(rep, F, "R03.1", lambda t: t in tys)
    rep.floor("Iterator impls inspected for overridden provided methods (%s)" % cfg, n_it, 2)
    for short, fmt in (walkers if walkers is not None else WALKERS).items():
        if short not in F.short:
            rep.bad("R03.1", short, "missing", "%s not found" % short, kind="unrecognised", config=cfg)
            continue
        for stack, tag in ((["n"], "one"), ([], "empty")):
            key = (cfg, "step;%s;%s" % (short, tag))
            if key not in ctx._paths:
                ctx._paths[key] = absint.explore(F, None, None, {"loop_bound": 1}, program=step_program(F, short, stack))
            paths = ctx._paths[key]
            C.report_unrecognised(rep, "R03.1", short, paths, F)
            for p in paths:
                n += 1
                ins = C.inputs_str(p, 10)
                if p.result[0] == "panic":
                    rep.bad("R03.1", short, "panics", "%s can panic: %s (inputs: %s)" % (short, C.result_str(p), ins), config=cfg)
                    continue
                if p.result[0] not in ("ret", "cut"):
                    continue
                pushes = [e["item"] for e in p.events if e.kind == "vec_push" and e["vec"] == "self.nodes"]
                got = repr(p.result[1]).replace("?", "") if p.result[0] == "ret" else "continues"
                if tag == "empty":
                    if got != "None" or pushes:
                        rep.bad("R03.5", short, "not-fused", "%s on an empty stack returns %s and pushes %s" % (short, got, pushes), config=cfg)
                    else:
                        rep.ok("R03.5", short, "empty stack: None")
                    continue
                if not table_present(p):
                    if got != "None":
                        rep.bad("R03.5", short, "no-table", "%s without a table returns %s" % (short, got), config=cfg)
                    continue
                T = None
                for e in p.events:
                    if e.kind == "arena_index":
                        T = e["table"]
                        break
                opt = {k[4:]: v for k, v in p.inputs if k.startswith("opt:")}
                if T is None:
                    rep.bad("R03.1", short, "unjustified", "%s decides (%s, pushes %s) without looking at the popped node" % (short, got, pushes), config=cfg)
                    continue
                try:
                    want_push = []
                    for side in ("right", "left"):
                        v = opt.get("%s[n].%s" % (T, side))
                        if v is None:
                            raise KeyError("the %s link of the popped node" % side)
                        if v == "S":
                            want_push.append("n." + side[0])
                    val = opt.get("%s[n].value" % T)
                    if val is None:
                        raise KeyError("whether the popped node holds a value")
                except KeyError as m:
                    rep.bad("R03.1", short, "unjustified", "%s decides (%s, pushes %s) without having examined %s (inputs: %s)"
                            % (short, got, pushes, m.args[0], ins), config=cfg)
                    continue
                want = fmt.format(T=T) if val == "S" else "continues"
                ok = True
                if pushes != want_push:
                    rep.bad("R03.1", short, "pushes", "%s: popped node has children %s; the step must push %s (right first), it pushes %s (inputs: %s)"
                            % (short, want_push, want_push, pushes, ins), config=cfg)
                    ok = False
                if got != want:
                    rep.bad("R03.4", short, "emission:" + ("valued" if val == "S" else "valueless"),
                            "%s: the popped node %s a value, the step must %s, it %s (inputs: %s)"
                            % (short, "holds" if val == "S" else "holds no", "yield " + want if val == "S" else "go on with the stack",
                               "returns " + got if got != "continues" else "goes on with the stack", ins), config=cfg)
                    ok = False
                if ok:
                    rep.ok("R03.1", short, "push=%d %s" % (len(want_push), "emit" if val == "S" else "skip"),
                           sample={"inputs": ins, "pushes": pushes, "result": got} if len(want_push) == 2 and val == "S" else None)
    # ---- constructors
    for short, start in (ctors if ctors is not None else CTORS).items():
        if short not in F.short:
            rep.bad("R03.6", short, "missing", "%s not found" % short, kind="unrecognised", config=cfg)
            continue
        paths = ctx.paths(F, short, {"loop_bound": 1})
        C.report_unrecognised(rep, "R03.6", short, paths, F)
        for p in C.complete(paths):
            n += 1
            st = innermost(None, p.result[1])
            if st is None:
                rep.bad("R03.6", short, "shape", "%s returns %r: no stack walker inside" % (short, p.result[1]), config=cfg)
                continue
            nodes = st.fields["nodes"].value
            items = [repr(x).replace("?", "") for x in nodes.obj.items] if isinstance(nodes, VecV) and nodes.obj.base is None else None
            tbl = repr(st.fields["table"].value)
            if start == "0":
                want = ["0"]
            else:
                var = [v for k, v in p.inputs if k.startswith("variant:") and k.endswith("loc")]
                base = [k[len("variant:"):] for k, v in p.inputs if k.startswith("variant:") and k.endswith("loc")]
                want = [base[0] + (".0" if var[0] == "Node" else ".1")] if var else None
            tbl_ok = ("self.table" in tbl or "self.0.table" in tbl) and "None" not in tbl
            if items != want or not tbl_ok:
                rep.bad("R03.6", short, "start", "%s must start the walker at %s on the map's table; it starts at %s on %s" % (short, want, items, tbl), config=cfg)
            else:
                rep.ok("R03.6", short, "start " + start, sample={"result": repr(p.result[1])} if start == "loc" else None)
    if not extras:
        rep.floor("iterator step / constructor paths (%s)" % cfg, n, floor)
        return
    # ---- hand-written Default: an empty iterator (no table, empty stack)
    for short in ("<map::Iter as Default>::default", "<IterMut as Default>::default"):
        if short in F.short:
            for p in C.complete(ctx.paths(F, short, {"loop_bound": 1})):
                n += 1
                st = innermost(None, p.result[1])
                nodes = st.fields["nodes"].value if st else None
                empty = isinstance(nodes, VecV) and nodes.obj.base is None and not nodes.obj.items
                if st is None or not empty:
                    rep.bad("R03.6", short, "default-not-empty", "%s must be the empty iterator; it is %r" % (short, p.result[1]), config=cfg)
                else:
                    rep.ok("R03.6", short, "empty iterator")
    # ---- clones: derived (copies table reference + stack), or a hand-written clone / clone_from that provably does the same
    for short in CLONES:
        path = F.short.get(short)
        f = F.fns.get(path) if path else None
        imp = None
        for i in F.impls:
            if f and i["path"] == f.get("impl"):
                imp = i
        if imp is None:
            rep.bad("R03.6", short, "missing", "%s not found" % short, kind="unrecognised", config=cfg)
            continue
        if imp.get("auto_derived"):
            rep.ok("R03.6", short, "derived")
            continue
        for it_ in imp["items"]:
            if it_["kind"] != "AssocFn":
                continue
            ms = F.short_of.get(it_["path"], it_["path"])
            mpath = it_["path"]

            def prog(it, mpath=mpath, name=it_["name"]):
                params = C.fn_params(F, mpath)
                args = [absint.unknown(it, ty, nm) for nm, ty, _ in params]
                r = it.run_fn(mpath, args)
                src = args[-1] if name == "clone_from" else args[0]
                dst = args[0] if name == "clone_from" else r
                def parts(v):
                    v = it.val_force(v)
                    while isinstance(v, RefV):
                        v = it.force(v.cell)
                    st = innermost(it, v)
                    if st is None:
                        return None
                    return (repr(it.force(st.fields["table"])).replace("?", ""), repr(it.force(st.fields["nodes"])).replace("?", ""))
                it.emit("clone_parts", src=parts(src), dst=parts(dst))
                return r
            key = (cfg, "clone;" + ms)
            if key not in ctx._paths:
                ctx._paths[key] = absint.explore(F, None, None, {"loop_bound": 2}, program=prog)
            paths = ctx._paths[key]
            unrec = [p for p in paths if p.result[0] == "unrecognised"]
            if unrec:
                rep.bad("R03.6", ms, "hand-written-clone", "%s is hand-written and cannot be followed (%s): it must copy the table reference and the "
                        "stack of its source" % (ms, unrec[0].result[1][:100]), kind="unrecognised", config=cfg)
                continue
            for p in C.complete(paths):
                for e in p.ev("clone_parts"):
                    if e["src"] is None or e["dst"] is None or e["src"][0] != e["dst"][0] or e["src"][1].split("++")[0] != e["dst"][1].split("++")[0]:
                        rep.bad("R03.6", ms, "clone-differs", "%s: the copy walks table %s with stack %s, the source walks table %s with stack %s: a cloned "
                                "iterator must continue exactly where its source is" % (ms, e["dst"] and e["dst"][0], e["dst"] and e["dst"][1],
                                                                                           e["src"] and e["src"][0], e["src"] and e["src"][1]), config=cfg)
                    else:
                        rep.ok("R03.6", ms, "copies table and stack")
    # ---- R03.7: "exactly once" needs the linked slots to form a tree; the structural mutators must keep it one
    from . import c16
    n_tree = 0
    for where, paths, ret_fresh in c16.entry_programs(ctx, F):
        for p in paths:
            if p.result[0] not in ("ret", "cut"):
                continue
            n_tree += 1
            for kind, slot, text in C.SlotGraph(p).problems(ret_fresh):
                if kind in ("free-linked", "double-link", "double-free"):
                    rep.bad("R03.7", where, "%s:%s" % (kind, slot), "%s: %s — a walk over the links would then visit a slot twice or visit a "
                            "recycled slot (inputs: %s)" % (where, text, C.inputs_str(p, 12)), config=cfg)
    rep.ok("R03.7", "structural mutators", "links stay a tree")
    rep.floor("mutator paths checked for tree-ness (%s)" % cfg, n_tree, 8000)
    rep.floor("iterator step / constructor paths (%s)" % cfg, n, 60)


def finalize(ctx, rep):
    F = ctx.main()
    key = (F.config, "step;<map::Iter as Iterator>::next;one")
    paths = ctx._paths.get(key) or absint.explore(F, None, None, {"loop_bound": 1}, program=step_program(F, "<map::Iter as Iterator>::next", ["n"]))
    both = [p for p in paths if len([e for e in p.events if e.kind == "vec_push"]) == 2]
    fired = bool(both) and [e["item"] for e in both[0].events if e.kind == "vec_push"] == ["n.r", "n.l"]
    rep.canary("R03.1 sees a step with both children, pushed right-then-left", fired)
