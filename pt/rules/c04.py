"""C04 — len()/is_empty() agree with the number of stored entries.

Decides the inductive invariant  count = #{arena nodes holding a value}  by showing that every
function that can change either side changes both (R04.1), that handles keep their typestate
(R04.2), that slots put on the free list hold no value (R04.3), who may write `count` and what
len/is_empty read (R04.4), and that no public signature leaks a presence-changing reference (R04.5).
"""
from .. import absint
from ..absint import Cell, RefV, StructV, UnkV, OPTION
from . import common as C

HANDLES = {
    "prefix_trie::map::entry::Entry": None,
    "prefix_trie::map::entry::VacantEntry": "Vacant",
    "prefix_trie::map::entry::OccupiedEntry": "Occupied",
}
# value writes into a node vector *owned by an iterator* (IntoIter and its wrappers: the map was consumed, no len() observer
# exists) are outside the invariant; the interpreter marks such arenas `owned` by their type (Vec<Node>, not Table)
EXEMPT = {}
OPTS = {"loop_bound": 3}
DEEPER = False     # thorough tier: more configurations and the mutant corpus, same unrolling
ASSUMES = ["pt/models.py std model", "free-list slots hold no value (established by R04.3)"]
LEVEL_TEXT = __doc__


def mutator_set(F):
    s = {}
    for name, ws in C.mir_writers(F, C.NODE, "value").items():
        s.setdefault(name, []).extend(ws)
    for name, ws in C.mir_writers(F, C.PMAP, "count").items():
        s.setdefault(name, []).extend(ws)
    return s


def handle_of(F, short):
    f = F.fn(short)
    if not f or not f.get("impl"):
        return False, None
    adt = F.adt_of(f["impl_self_ty"])
    if adt in HANDLES:
        return True, HANDLES[adt]
    return False, None


def balance_points(p):
    """yield (label, presence_sum, count_sum) at the end of the path (ret) or at the cut point"""
    pres = 0
    cnt = 0
    pending_clear = False
    for e in p.events:
        if e.kind == "value_write" and not e["owned"]:
            pres += (1 if e["new"] == "S" else 0) - (1 if e["old"] == "S" else 0)
        elif e.kind == "count":
            if e["field"] == "count":
                cnt += e["delta"]
        elif e.kind == "arena_clear":
            pending_clear = True
        elif e.kind == "field_write" and e["field"] == "count":
            if e["new"] == "0" and pending_clear:
                pres = 0
                cnt = 0
                pending_clear = False
            else:
                return ("count assigned %s without clearing the arena" % e["new"], None, None)
    if pending_clear:
        return ("arena cleared but count not reset to 0", None, None)
    return (None, pres, cnt)


def check_paths(rep, F, rule, where, paths, sample_done):
    n_ok = 0
    C.report_unrecognised(rep, rule, where, paths, F)
    for p in paths:
        if p.result[0] not in ("ret", "cut"):
            continue
        err, pres, cnt = balance_points(p)
        if err is not None:
            rep.bad(rule, where, err, "%s: %s [%s]" % (where, err, C.inputs_str(p)), config=F.config)
            continue
        if pres != cnt:
            vw = [e for e in p.events if e.kind == "value_write" and e["old"] != e["new"]]
            detail = "presence%+d,count%+d" % (pres, cnt)
            rep.bad(rule, where, detail,
                    "%s: a path changes the number of stored values by %+d but the entry counter by %+d "
                    "(value writes: %s; inputs: %s)" % (where, pres, cnt, [repr(e) for e in vw][:4], C.inputs_str(p)),
                    config=F.config, extra={"events": C.events_str(p, ("value_write", "count", "field_write", "arena_clear"))})
        else:
            n_ok += 1
            if pres != 0 and where not in sample_done:
                sample_done.add(where)
                rep.ok(rule, where, "presence%+d=count%+d" % (pres, cnt),
                       sample={"inputs": C.inputs_str(p), "events": C.events_str(p, ("value_write", "count"))})
    rep.ok(rule, where, "paths", None)
    rep.count("paths", len(paths))
    return n_ok


def typestate_then(it, hcell, r):
    """after a method that only borrowed an Occupied handle: the node must still hold a value"""
    h = it.force(hcell)
    if isinstance(h, StructV) and h.variant == "Occupied" and "0" in h.fields:
        h = it.force(h.fields["0"])
    if isinstance(h, StructV) and "node" in h.fields:
        nref = it.force(h.fields["node"])
        node = it.force(nref.cell)
        v = node.fields["value"].value
        st = it.presence(v) if not isinstance(v, UnkV) else "?"
        it.emit("typestate", handle="Occupied", presence=st)
    return r


def declare(rep):
    rep.rule("R04.1", "every path of every function that can change a node's value or the counter changes both by the "
                      "same amount (work-list loops: per iteration; clear: arena.clear paired with count := 0)")
    rep.rule("R04.2", "a method that only borrows an OccupiedEntry leaves the node holding a value")
    rep.rule("R04.3", "every slot pushed on the free list holds no value at that point")
    rep.rule("R04.4", "len/is_empty read only the counter; sets delegate; all counter writers are analysed")
    rep.rule("R04.7", "new()/default() build counter 0 and a value-less, childless root")
    rep.rule("R04.6", "(shared with C19) Clone derived over all fields, or clone/clone_from take table, free list and counter from the source")
    rep.rule("R04.5", "no exported signature returns &mut Option<T>, &mut Node, &mut Vec<Node> or &mut Table")


def run_config(ctx, rep, cfg, F):
    sample_done = set()
    if True:
        muts = mutator_set(F)
        analysed = set()
        entered = set()
        # ---- R04.1 public entry points: every exported function from which a mutator is reachable (private helpers are
        # interpreted where they are called, so moving an update between a helper and its caller changes nothing here)
        mut_paths = {F.short[m] for m in muts if m in F.short}
        worker = C.retain_impl(F)
        for f in F.lib_fns():
            short = F.short_of[f["path"]]
            if not (f.get("exported") or f.get("reachable") or f["vis"] == "pub"):
                continue
            is_h, variant = handle_of(F, short)
            if is_h or short == worker:
                continue
            reach = C.reachable_from(F, f["path"])
            if not (reach & mut_paths):
                continue
            if short in EXEMPT:
                rep.ok("R04.1", short, "exempt: " + EXEMPT[short])
                analysed.add(short)
                continue
            opts = dict(OPTS)
            if "Iterator>::next" in short:
                opts["loop_bound"] = 1
            if worker and F.short[worker] in reach:
                tbl = "self.0.table" if "PrefixSet" in short else "self.table"
                opts.update(loop_bound=2, inline_depth=14, depth_bound=(tbl, "0", 2))
            paths = ctx.paths(F, short, opts, tag="c04")
            check_paths(rep, F, "R04.1", short, paths, sample_done)
            analysed.add(short)
            entered |= C.functions_entered(paths)
        # ---- handles: every method, through the only constructor (PrefixMap::entry)
        for f in F.lib_fns():
            short = F.short_of[f["path"]]
            is_h, variant = handle_of(F, short)
            if not is_h:
                continue
            params = C.fn_params(F, f["path"])
            if not params or params[0][0] != "self":
                continue
            borrows = F.types[params[0][1]]["t"] == "ref"
            prog = C.entry_then(F, short, variant, then=typestate_then if borrows else None)
            key = (cfg, "entry;" + short)
            if key not in ctx._paths:
                ctx._paths[key] = absint.explore(F, None, None, dict(OPTS, loop_bound=2), program=prog)
            paths = ctx._paths[key]
            where = "PrefixMap::entry;" + short
            check_paths(rep, F, "R04.1", where, paths, sample_done)
            analysed.add(short)
            entered |= C.functions_entered(paths)
            if borrows:
                for p in C.complete(paths):
                    for e in p.ev("typestate"):
                        if e["presence"] != "S":
                            rep.bad("R04.2", short, "leaves presence " + str(e["presence"]),
                                    "%s takes the handle by reference but leaves the entry's node without a value: "
                                    "the handle stays usable and its accessors panic / the counter can no longer be right"
                                    % short, config=cfg)
                        else:
                            rep.ok("R04.2", short, "S")
        # ---- the recursive retain worker on bounded sub-trees with parent and grand-parent
        if worker:
            for where, rpaths in C.retain_paths(ctx, F):
                check_paths(rep, F, "R04.1", where, rpaths, sample_done)
                entered |= C.functions_entered(rpaths)
            analysed.add(worker)
        # ---- coverage of the MIR-derived mutator set (fail closed on an uninterpreted site)
        for short in muts:
            base = short.split("::{closure")[0]
            if base not in analysed and base not in entered:
                rep.bad("R04.1", short, "uninterpreted", "MIR shows a mutable use of Node::value / a write of "
                        "PrefixMap::count in %s, but no analysed path goes through it" % short, kind="unrecognised", config=cfg)
        rep.floor("functions with a mutable use of Node::value or a write of count (%s)" % cfg, len(muts), 5)
        cw = C.mir_writers(F, C.PMAP, "count")
        rep.floor("writers of PrefixMap::count (%s)" % cfg, len(cw), 1)
        # ---- R04.3
        n_push = 0
        for key, paths in list(ctx._paths.items()):
            if key[0] != cfg:
                continue
            for p in paths:
                for e in p.ev("vec_push"):
                    if not e["vec"].endswith(".free"):
                        continue
                    n_push += 1
                    st = e["state"] or {}
                    states = [s["value"] for s in st.values()]
                    where = key[1]
                    if states and all(s == "N" for s in states):
                        rep.ok("R04.3", where, "free.push of a value-less slot")
                    else:
                        rep.bad("R04.3", where, "free.push(%s) value=%s" % (e["item"], states),
                                "%s pushes slot %s on the free list while it may still hold a value (%s)" % (where, e["item"], states),
                                config=cfg)
        rep.floor("free.push events checked (%s)" % cfg, n_push, 1000)
        # ---- R04.4
        for short, want in (("PrefixMap::len", "count"), ("PrefixMap::is_empty", "count"), ("PrefixSet::len", "count"),
                            ("PrefixSet::is_empty", "count")):
            paths = ctx.paths(F, short, OPTS)
            for p in paths:
                if p.result[0] != "ret":
                    rep.bad("R04.4", short, "not total", "%s: %s" % (short, C.result_str(p)), kind="unrecognised", config=cfg)
                    continue
                keys = [k for k, _ in p.inputs]
                r = repr(p.result[1])
                okv = ("count" in r) or any("count" in k for k in keys)
                touches = [e for e in p.events if e.kind in ("arena_index", "vec_pop")]
                if okv and not touches:
                    rep.ok("R04.4", short, "reads only the counter", sample={"result": r, "inputs": keys})
                else:
                    rep.bad("R04.4", short, "reads other state", "%s does not (only) read the entry counter: result %s, "
                            "touches %s" % (short, r, touches[:3]), config=cfg)
        # ---- R04.7 a new collection starts with counter 0 and a value-less root
        for short in ("PrefixMap::new", "<PrefixMap as Default>::default", "PrefixSet::new", "<PrefixSet as Default>::default"):
            if short not in F.short:
                rep.bad("R04.7", short, "missing", "%s not found" % short, kind="unrecognised", config=cfg)
                continue
            for p in ctx.paths(F, short, OPTS):
                r = repr(p.result[1]) if p.result[0] == "ret" else C.result_str(p)
                roots = [st.get("0", {}) for t, st in p.final.items()]
                if p.result[0] != "ret" or "count: 0" not in r or not roots or any(x.get("value") != "N" or x.get("left") != "N" or x.get("right") != "N" for x in roots):
                    rep.bad("R04.7", short, "initial-state", "%s must build an empty collection (counter 0, value-less childless root); it builds %s with root %s"
                            % (short, r, roots), config=cfg)
                else:
                    rep.ok("R04.7", short, "counter 0, empty root", sample={"result": r, "root": roots[0]})
        # ---- R04.6 clone / clone_from keep counter and arena together (rule of C19, shared)
        from . import c19
        c19.check_clone(ctx, rep, cfg, F, rule="R04.6")
        # ---- R04.5 / R01.5
        leaks = 0
        for f in F.lib_fns():
            if not (f.get("exported") or f.get("reachable")):
                continue
            out = F.types[f["output"]]["s"]
            for bad in ("&mut std::option::Option<", "&mut prefix_trie::inner::Node<", "&mut std::vec::Vec<prefix_trie::inner::Node",
                        "&mut prefix_trie::inner::Table<"):
                import re
                if re.search(r"&('\w+ )?mut " + re.escape(bad[5:]), out):
                    leaks += 1
                    rep.bad("R04.5", F.short_of[f["path"]], "returns " + bad, "exported function %s returns %s: code outside the "
                            "crate could change presence or links behind the counter" % (F.short_of[f["path"]], out), config=cfg)
        if not leaks:
            rep.ok("R04.5", "all exported signatures", "no leaking &mut")


def finalize(ctx, rep):
    # ---- canary: the balance rule must fire when one counter event is dropped from a real path
    F = ctx.main()
    paths = ctx.paths(F, "PrefixMap::remove_keep_tree", OPTS)
    fired = False
    for p in paths:
        if p.result[0] == "ret" and any(e.kind == "count" for e in p.events):
            q = absint.PathSummary()
            q.events = [e for e in p.events if e.kind != "count"]
            q.result = p.result
            err, pres, cnt = balance_points(q)
            fired = err is None and pres != cnt
            break
    rep.canary("R04.1 fires when the counter update is removed from remove_keep_tree's path", fired)
