"""C15 — the trie stays well-formed; insert/remove keep the canonical shape.

Decides, per step (the induction over histories is not mechanised):
R15.1 every child link written by any function is justified by the facts of its path: the parent's
      prefix strictly covers the child's and the link side is the child's branch bit (relation oracle
      + containment closure + the side rules S1-S3, i.e. C17 assumed);
R15.2 the root slot is never freed, never becomes a child, and a node's prefix is only overwritten by
      an equal key (or on a fresh slot);
R15.3 local canonicity: from every canonical abstract pre-state (each non-root node holds a value or has
      two children), insert / every entry insertion / remove leave every node they touched canonical;
R15.4 shape-preserving operations (remove_keep_tree, value accessors, entry value operations,
      TrieViewMut::*, all *_mut traversals) write no link, free-list or arena state.
"""
from .. import absint
from . import common as C
from . import c04, c16

OPTS = {"loop_bound": 3}
CANONICAL_OPS = ("PrefixMap::insert", "PrefixMap::remove")
VALUE_ONLY = ["PrefixMap::remove_keep_tree", "PrefixMap::get_mut", "PrefixMap::get_lpm_mut", "<IterMut as Iterator>::next",
              "<ValuesMut as Iterator>::next", "Entry::get_mut", "Entry::and_modify", "Entry::or_insert", "Entry::or_insert_with",
              "Entry::or_default", "Entry::insert", "OccupiedEntry::get_mut", "OccupiedEntry::insert", "OccupiedEntry::remove",
              "TrieViewMut::set", "TrieViewMut::remove", "TrieViewMut::value_mut", "TrieViewMut::prefix_value_mut",
              "<UnionMut as Iterator>::next", "<IntersectionMut as Iterator>::next", "<DifferenceMut as Iterator>::next",
              "<CoveringDifferenceMut as Iterator>::next"]
ASSUMES = ["C17 prefix algebra (relation oracle, side rules S1-S3)", "pre-state is a well-formed trie", "pt/models.py std model"]
LEVEL_TEXT = __doc__
DEEPER = False     # thorough tier: more configurations and the mutant corpus, same unrolling (path count grows too fast)


def declare(rep):
    rep.rule("R15.1", "every surviving link write has parent ⊋ child and the branch side of the child (from the path's facts)")
    rep.rule("R15.2", "root never freed / linked as a child; prefix overwritten only by an equal key or on a fresh slot")
    rep.rule("R15.3", "insert / entry insertions / remove map canonical pre-states to canonical post-states (touched nodes)")
    rep.rule("R15.6", "definition of the branch side: to_right(branch, child) = child.is_bit_set(branch.prefix_len())")
    rep.rule("R15.5", "(shared with C16) no live node links to a freed slot, no slot is linked twice")
    rep.rule("R15.4", "value-only operations write no link, free-list or arena state")


def initial_state(p):
    st = {}
    for k, v in p.inputs:
        if k.startswith("opt:") and "[" in k and k.rsplit(".", 1)[-1] in ("value", "left", "right"):
            tbl, rest = k[4:].split("[", 1)
            key, field = rest.rsplit("].", 1)
            st.setdefault((tbl, key), {}).setdefault(field, v)
    first_write = set()
    for e in p.events:
        if e.kind == "link_write":
            first_write.add((e["table"], e["node"], e["side"]))
        elif e.kind == "link_known" and (e["table"], e["node"], e["side"]) not in first_write:
            st.setdefault((e["table"], e["node"]), {}).setdefault(e["side"], "S")
    return st


def canonical(key, st, roots=("0",)):
    if key in roots:
        return True
    if st.get("value") == "S":
        return True
    l, r = st.get("left"), st.get("right")
    if l == "S" and r == "S":
        return True
    if st.get("value") in (None, "?"):
        return None
    if l in (None, "?") or r in (None, "?"):
        return None
    return False


def touched_nodes(p):
    t = set()
    for e in p.events:
        if e.kind in ("value_write", "link_write", "prefix_write"):
            t.add((e["table"], e["node"]))
    return t


def run_config(ctx, rep, cfg, F):
    C.check_primitives(rep, F, "R15.6", ("to_right",))
    n_links = 0
    progs = c16.entry_programs(ctx, F)
    for where, paths, ret_fresh in progs:
        C.report_unrecognised(rep, "R15.1", where, paths, F)
        sampled = False
        for p in paths:
            if p.result[0] not in ("ret", "cut"):
                continue
            g = C.SlotGraph(p)
            for l in p.links:
                n_links += 1
                if l.get("rel") == "SUP" and l.get("side_ok"):
                    rep.ok("R15.1", where, "%s: link justified" % l.get("fn"),
                           sample=None if sampled else {"link": l, "inputs": C.inputs_str(p, 10)})
                    sampled = True
                else:
                    if l["node"] in g.freed:
                        continue  # a link left in a freed slot is garbage, not part of the tree
                    why = "parent does not provably cover child (relation %s)" % l.get("rel") if l.get("rel") != "SUP" else \
                        "link side %s but the child's branch bit is %s" % (l["side"], {True: "right", False: "left", None: "unknown"}[l.get("side_known")])
                    rep.bad("R15.1", where, "%s:%s" % (l.get("fn"), "rel" if l.get("rel") != "SUP" else "side"),
                            "%s: %s links %s as %s child of %s: %s (parent prefix %s, child prefix %s; inputs: %s)"
                            % (where, l.get("fn"), l["child"], l["side"], l["node"], why, l.get("pp"), l.get("cp"), C.inputs_str(p, 12)),
                            config=cfg)
            for kind, slot, text in g.problems(ret_fresh):
                if kind in ("root-freed", "root-linked"):
                    rep.bad("R15.2", where, kind, "%s: %s" % (where, text), config=cfg)
                elif kind in ("free-linked", "double-link"):
                    rep.bad("R15.5", where, "%s:%s" % (kind, slot), "%s: %s — the structure reachable through views is then no longer a tree of live "
                            "nodes (inputs: %s)" % (where, text, C.inputs_str(p, 12)), config=cfg)
            for e in p.ev("prefix_write"):
                if e["fresh"]:
                    continue
                if e["rel"] == "EQ":
                    rep.ok("R15.2", where, "prefix overwritten by an equal key")
                else:
                    rep.bad("R15.2", where, "prefix:=non-equal", "%s: %s overwrites the prefix %s of node %s with %s, which is not "
                            "known to be the same key (relation %s)" % (where, e["fn"], e["old"], e["node"], e["new"], e["rel"]), config=cfg)
    rep.floor("link writes audited (%s)" % cfg, n_links, 3500)
    # ---- R15.3
    n_canon = 0
    for where, paths, _ in progs:
        base = where.split(";")[-1]
        is_h, _v = c04.handle_of(F, base)
        if not (where in CANONICAL_OPS or is_h or where.startswith("PrefixMap::_retain[")):
            continue
        for p in paths:
            if p.result[0] != "ret":
                continue
            init = initial_state(p)
            roots = ("0", "i") if where.endswith("[root]") else ("0",)
            if any(canonical(k, st, roots) is False for (t, k), st in init.items()):
                continue
            g = C.SlotGraph(p)
            for (t, k) in touched_nodes(p):
                if k in g.freed:
                    continue
                st = p.final.get(t, {}).get(k)
                if st is None:
                    continue
                c = canonical(k, st, roots)
                if c is True:
                    n_canon += 1
                    rep.ok("R15.3", where, "touched nodes canonical")
                elif c is False:
                    rep.bad("R15.3", where, "non-canonical:%s" % ("fresh" if k in g.fresh else "node"),
                            "%s: from a canonical pre-state, node %s is left value-less with children (%s, %s) — a freshly built "
                            "map has no such node (inputs: %s)" % (where, k, st.get("left"), st.get("right"), C.inputs_str(p, 14)), config=cfg)
                else:
                    # value-less node whose other link was never inspected: canonical iff it was (pre-state assumption)
                    ist = init.get((t, k), {})
                    lost = [e for e in p.events if e.kind == "link_write" and e["node"] == k and e["new"] is None]
                    if lost and st.get("value") != "S":
                        rep.bad("R15.3", where, "lost-child-unchecked", "%s: node %s loses a child without its value / other child "
                                "being examined: it may be left value-less with one child (inputs: %s)" % (where, k, C.inputs_str(p, 14)), config=cfg)
    rep.floor("canonicity post-states checked (%s)" % cfg, n_canon, 3500)
    # ---- R15.4: the public value-only operations (named by the property) have no structural effect
    n_shape = 0
    for base in VALUE_ONLY:
        if base not in F.short:
            rep.bad("R15.4", base, "missing", "%s not found" % base, kind="unrecognised", config=cfg)
            continue
        is_h, variant = c04.handle_of(F, base)
        if is_h:
            paths = ctx._paths.get((cfg, "entry;" + base), [])
        else:
            opts = dict(OPTS)
            if "Iterator>::next" in base:
                opts["loop_bound"] = 1
            paths = ctx.paths(F, base, opts)
        for p in paths:
            seen_method = not is_h
            vac = is_h and p.ev("handle") and p.ev("handle")[0]["variant"] == "Vacant"
            for e in p.events:
                if e.kind == "method":
                    seen_method = True
                    continue
                if not seen_method or vac:
                    continue        # a vacant insertion is structural by design
                if e.kind in ("link_write", "arena_push", "arena_clear") or (e.kind in ("vec_push", "vec_pop", "vec_clear") and e["vec"].endswith(".free")):
                    rep.bad("R15.4", base, e.kind, "%s is a value-only operation but performs %s" % (base, e), config=cfg)
                    break
            else:
                n_shape += 1
        rep.ok("R15.4", base, "no structural effect")
    rep.floor("value-only paths checked (%s)" % cfg, n_shape, 1200)


def finalize(ctx, rep):
    # canary: a link written on the wrong side must be reported
    F = ctx.main()
    fired = False
    for p in ctx.paths(F, "PrefixMap::insert", OPTS):
        for l in p.links:
            if l.get("side_known") is not None:
                l2 = dict(l, side_ok=(l["side_known"] != (l["side"] == "right")))
                fired = not l2["side_ok"]
                break
        if fired:
            break
    rep.canary("R15.1 side test distinguishes a flipped link side", fired)
