"""Shared machinery for the simultaneous traversals (C05–C08, C13, C18).

Every arm of every next() is interpreted once per abstract input class: the iterator's stack holds one
known entry (Both / First* / Only*) whose two nodes stand in the relation that entry kind means; the
interpreter yields the entries pushed (in order, with their LPM annotations) and the item emitted.
These are compared with the specification below, written from the property statements (DESIGN.md
Appendix B), evaluated over *the facts the path examined* — a needed fact the code never looked at is
reported as an unjustified decision.
"""
from .. import absint
from ..absint import Cell, RefV, StructV, SymV, TupleV, UnkV, VecObj, VecV, OPTION, EQ, SUP, SUB, DISJ
from . import common as C

TL, TR = "self.table_l", "self.table_r"


class Missing(Exception):
    pass


# ---------------------------------------------------------------- operations
OPS = {
    "union": dict(enum="prefix_trie::trieview::union::UnionIndex", names=dict(both="Both", fl="FirstL", fr="FirstR", ol="OnlyL", orr="OnlyR"),
                  iters={"<Union as Iterator>::next": dict(mut=False, lpm="lr"), "<UnionMut as Iterator>::next": dict(mut=True, lpm="")},
                  ctors={"TrieView::union": dict(lpm="lr"), "TrieViewMut::union_mut": dict(lpm="")}),
    "intersection": dict(enum="prefix_trie::trieview::intersection::IntersectionIndex", names=dict(both="Both", fl="FirstL", fr="FirstR", ol=None, orr=None),
                         iters={"<Intersection as Iterator>::next": dict(mut=False, lpm=""), "<IntersectionMut as Iterator>::next": dict(mut=True, lpm="")},
                         ctors={"TrieView::intersection": dict(lpm=""), "TrieViewMut::intersection_mut": dict(lpm="")}),
    "difference": dict(enum="prefix_trie::trieview::difference::DifferenceIndex", names=dict(both="Both", fl="FirstL", fr="FirstR", ol="OnlyL", orr=None),
                       iters={"<Difference as Iterator>::next": dict(mut=False, lpm="r"), "<DifferenceMut as Iterator>::next": dict(mut=True, lpm="r")},
                       ctors={"TrieView::difference": dict(lpm="r"), "TrieViewMut::difference_mut": dict(lpm="r")}),
    "covering": dict(enum="prefix_trie::trieview::difference::DifferenceIndex", names=dict(both="Both", fl="FirstL", fr="FirstR", ol="OnlyL", orr=None),
                     iters={"<CoveringDifference as Iterator>::next": dict(mut=False, lpm=""), "<CoveringDifferenceMut as Iterator>::next": dict(mut=True, lpm="")},
                     ctors={"TrieView::covering_difference": dict(lpm=""), "TrieViewMut::covering_difference_mut": dict(lpm="")}),
}
KINDS = ("both", "fl", "fr", "ol", "orr")
CANON_VARIANT = dict(both="Both", fl="FirstL", fr="FirstR", ol="OnlyL", orr="OnlyR")


def discover(F):
    """Role of every variant of the stack-entry enums, from what one `next()` does with it (see pt/canon.py): returns
    ({(enum path, variant name): canonical name}, {op: enum path}).  Field names are already canonical (table_l / table_r / nodes)."""
    import re as _re
    from .. import canon
    ren, enums = {}, {}
    done = {}
    for op, spec in OPS.items():
        it_short = next((k for k in spec["iters"] if k in F.short), None)
        if it_short is None:
            continue
        f = F.fns[F.short[it_short]]
        it_adt = F.adt_of(f["impl_self_ty"]) if f.get("impl") else None
        enum = canon.stack_enum_of(F.raw, it_adt)
        if enum is None:
            continue
        enums[op] = enum
        if enum in done:
            continue
        roles = {}
        for v in F.adts[enum]["variants"]:
            nf = len(v["fields"])
            if nf not in (1, 2):
                continue
            lpm = spec["iters"][it_short]["lpm"]

            def prog(it, v=v, nf=nf, lpm=lpm, it_short=it_short, enum=enum):
                npath = F.short[it_short]
                params = C.fn_params(F, npath)
                selfv = absint.unknown(it, params[0][1], "self")
                st = it.force(selfv.cell)
                fields = {"0": Cell(SymV("i0"), "0")}
                if nf == 2:
                    fields["1"] = Cell(SymV("i1"), "1")
                idx = StructV(enum, v["name"], fields)
                vty = F.types[[x for x in F.adts[st.adt]["variants"][0]["fields"] if x["name"] == "nodes"][0]["ty"]]
                elem = F.types[vty["a"][0]]
                if elem["t"] == "tuple":
                    item = TupleV([Cell(idx, "0")] + [Cell(UnkV(t_, "inh%d" % k_), str(k_ + 1)) for k_, t_ in enumerate(elem["a"][1:])])
                else:
                    item = idx
                st.fields["nodes"].value = VecV(VecObj("self.nodes", [item], None))
                return it.run_fn(npath, [selfv])
            read = set()
            try:
                for p in absint.explore(F, None, None, {"loop_bound": 1}, max_paths=120, program=prog):
                    for k, _ in p.inputs:
                        m = _re.match(r"opt:self\.table_([lr])\[(i[01])\]\.(left|right)$", k)
                        if m:
                            read.add((m.group(1), m.group(2)))
            except Exception:
                read = set()
            sides = {a for a, _ in read}
            if nf == 2:
                role = "both" if sides == {"l", "r"} else "fl" if sides == {"l"} else "fr" if sides == {"r"} else None
                if role and {(a, i) for a, i in read} - {("l", "i0"), ("r", "i1")}:
                    role = None      # the first index must address the left table, the second the right one
            else:
                role = "ol" if sides == {"l"} else "orr" if sides == {"r"} else None
            if role:
                roles.setdefault(role, []).append(v["name"])
        done[enum] = roles
        if all(len(vs) == 1 for vs in roles.values()) and sum(len(vs) for vs in roles.values()) == len(F.adts[enum]["variants"]):
            for role, (name,) in roles.items():
                if name != CANON_VARIANT[role]:
                    ren[(enum, name)] = CANON_VARIANT[role]
    return ren, enums


def bind_enums(enums):
    for op, e in enums.items():
        OPS[op]["enum"] = e


# ---------------------------------------------------------------- facts of one path
class PF:
    def __init__(self, p, tl=TL, tr=TR):
        self.p = p
        self.tl, self.tr = tl, tr
        self.opt = {}
        for k, v in p.inputs:
            if k.startswith("opt:"):
                self.opt.setdefault(k[4:], v)

    def child(self, T, k, side):
        v = self.opt.get("%s[%s].%s" % (T, k, side))
        if v is None:
            raise Missing("the %s link of %s[%s]" % (side, T, k))
        return ("%s.%s" % (k, side[0])) if v == "S" else None

    def valued(self, T, k):
        v = self.opt.get("%s[%s].value" % (T, k))
        if v is None:
            raise Missing("whether %s[%s] holds a value" % (T, k))
        return v == "S"

    def rel(self, a, b):
        pa, pb = C.canon_prefix(self.tl, a), C.canon_prefix(self.tr, b)
        if pa == pb:
            return (EQ, None, None)
        r = self.p.relx.get((pa, pb))
        if r is None:
            raise Missing("the relation of %s[%s] and %s[%s]" % (self.tl, a, self.tr, b))
        if r[0] == DISJ and r[1] is None:
            raise Missing("the order of %s[%s] and %s[%s]" % (self.tl, a, self.tr, b))
        return r

    def side(self, Tc, c, To, o):
        s = self.p.sides.get((C.canon_prefix(Tc, c), C.canon_prefix(To, o)))
        if s is None:
            raise Missing("the branch side of %s[%s] under %s[%s]" % (To, o, Tc, c))
        return s


# ---------------------------------------------------------------- specification (Appendix B)
def pair(op, f, a, b):
    """entries for a pair of optional nodes, in push order (the last is visited first)"""
    if a is None and b is None:
        return []
    if b is None:
        return [("ol", a)] if op in ("union", "difference", "covering") else []
    if a is None:
        return [("orr", b)] if op == "union" else []
    r = f.rel(a, b)
    if r[0] == EQ:
        return [("both", a, b)]
    if r[0] == SUP:
        return [("fl", a, b)]
    if r[0] == SUB:
        return [("fr", a, b)]
    if op == "union":
        return [("orr", b), ("ol", a)] if r[1] == "lt" else [("ol", a), ("orr", b)]
    if op in ("difference", "covering"):
        return [("ol", a)]
    return []


def first_l(op, f, l, r):
    """descend on the left operand only.  Two derivations justify the same entries; the first whose facts the path examined
    is used: A — by the presence pattern of l's children (a single child is paired whatever its side; pair() then sees
    a disjoint pair); B — only the child on r's side matters when the other side is dropped anyway."""
    try:
        return first_l_A(op, f, l, r)
    except Missing as m:
        if op != "intersection":
            raise
        try:
            c = f.child(f.tl, l, "right" if f.side(f.tl, l, f.tr, r) else "left")
            return [] if c is None else pair(op, f, c, r)
        except Missing:
            raise m


def first_r(op, f, l, r):
    try:
        return first_r_A(op, f, l, r)
    except Missing as m:
        if op == "union":
            raise
        try:
            c = f.child(f.tr, r, "right" if f.side(f.tr, r, f.tl, l) else "left")
            if c is None:
                return [("ol", l)] if op in ("difference", "covering") else []
            return pair(op, f, l, c)
        except Missing:
            raise m


def first_l_A(op, f, l, r):
    ll, lr = f.child(f.tl, l, "left"), f.child(f.tl, l, "right")
    if ll is None and lr is None:
        return [("orr", r)] if op == "union" else []
    if ll is None:
        return pair(op, f, lr, r)
    if lr is None:
        return pair(op, f, ll, r)
    keep = op in ("union", "difference", "covering")
    if f.side(f.tl, l, f.tr, r):
        return pair(op, f, lr, r) + ([("ol", ll)] if keep else [])
    return ([("ol", lr)] if keep else []) + pair(op, f, ll, r)


def first_r_A(op, f, l, r):
    rl, rr = f.child(f.tr, r, "left"), f.child(f.tr, r, "right")
    if rl is None and rr is None:
        return [("ol", l)] if op in ("union", "difference", "covering") else []
    if rl is None:
        return pair(op, f, l, rr)
    if rr is None:
        return pair(op, f, l, rl)
    keep = op == "union"
    if f.side(f.tr, r, f.tl, l):
        return pair(op, f, l, rr) + ([("orr", rl)] if keep else [])
    return ([("orr", rr)] if keep else []) + pair(op, f, l, rl)


def arm(op, f, e):
    """(pushes, emission) for popped entry e; emission = None | (kind, ...)"""
    k = e[0]
    if k == "both":
        l, r = e[1], e[2]
        if op == "covering" and f.valued(f.tr, r):
            return [], None
        pushes = pair(op, f, f.child(f.tl, l, "right"), f.child(f.tr, r, "right")) + \
            pair(op, f, f.child(f.tl, l, "left"), f.child(f.tr, r, "left"))
        vl = f.valued(f.tl, l)
        if op == "covering":
            return pushes, (("L", l) if vl else None)
        if op != "union" and not vl:
            return pushes, None          # the right value cannot matter
        vr = f.valued(f.tr, r)
        if op == "union":
            em = ("LR", l, r) if vl and vr else ("L", l) if vl else ("R", r) if vr else None
        elif op == "intersection":
            em = ("LR", l, r) if vr else None
        else:
            em = ("L", l) if not vr else None
        return pushes, em
    if k == "fl":
        l, r = e[1], e[2]
        pushes = first_l(op, f, l, r)
        if op == "intersection":
            return pushes, None
        return pushes, (("L", l) if f.valued(f.tl, l) else None)
    if k == "fr":
        l, r = e[1], e[2]
        if op == "covering" and f.valued(f.tr, r):
            return [], None
        pushes = first_r(op, f, l, r)
        if op == "union":
            return pushes, (("R", r) if f.valued(f.tr, r) else None)
        return pushes, None
    if k == "ol":
        l = e[1]
        pushes = [("ol", c) for c in (f.child(f.tl, l, "right"), f.child(f.tl, l, "left")) if c is not None]
        return pushes, (("L", l) if f.valued(f.tl, l) else None)
    if k == "orr":
        r = e[1]
        pushes = [("orr", c) for c in (f.child(f.tr, r, "right"), f.child(f.tr, r, "left")) if c is not None]
        return pushes, (("R", r) if f.valued(f.tr, r) else None)
    raise AssertionError(k)


def own(f, T, k):
    return "Some((&%s[%s].prefix, &%s[%s].value.some))" % (T, k, T, k) if f.valued(T, k) else None


def annotate(f, e, inh_l, inh_r, lpm):
    """annotations (as printed) of a pushed entry"""
    k = e[0]
    al, ar = inh_l, inh_r
    if "l" in lpm and k in ("both", "fl", "ol"):
        al = own(f, f.tl, e[1]) or inh_l
    if "r" in lpm and k in ("both", "fr", "orr"):
        rn = e[2] if k in ("both", "fr") else e[1]
        ar = own(f, f.tr, rn) or inh_r
    return al, ar


# ---------------------------------------------------------------- printing entries / items the way the interpreter prints them
def entry_str(op, e):
    names = OPS[op]["names"]
    enum = OPS[op]["enum"].split("::")[-1]
    return "%s::%s{%s}" % (enum, names[e[0]], ", ".join(e[1:]))


def stack_item_str(op, e, al, ar, lpm):
    s = entry_str(op, e)
    if lpm == "lr":
        return "(%s, %s, %s)" % (s, al, ar)
    if lpm == "r":
        return "(%s, %s)" % (s, ar)
    return s


def emission_str(op, it_short, em, inh_l, inh_r, mut):
    """set of acceptable printed results for an emission descriptor"""
    if em is None:
        return {"None"}
    m = "&mut " if mut else "&"
    L = lambda k: "%s[%s]" % (TL, k)
    R = lambda k: "%s[%s]" % (TR, k)
    if op == "union":
        if not mut:
            if em[0] == "L":
                return {"Some(UnionItem::Left{prefix: &%s.prefix, left: &%s.value.some, right: %s})" % (L(em[1]), L(em[1]), inh_r)}
            if em[0] == "R":
                return {"Some(UnionItem::Right{prefix: &%s.prefix, left: %s, right: &%s.value.some})" % (R(em[1]), inh_l, R(em[1]))}
            return {"Some(UnionItem::Both{prefix: &%s.prefix, left: &%s.value.some, right: &%s.value.some})" % (x, L(em[1]), R(em[2]))
                    for x in (L(em[1]), R(em[2]))}
        if em[0] == "L":
            return {"Some((&%s.prefix, Some(&mut %s.value.some), None))" % (L(em[1]), L(em[1]))}
        if em[0] == "R":
            return {"Some((&%s.prefix, None, Some(&mut %s.value.some)))" % (R(em[1]), R(em[1]))}
        return {"Some((&%s.prefix, Some(&mut %s.value.some), Some(&mut %s.value.some)))" % (x, L(em[1]), R(em[2])) for x in (L(em[1]), R(em[2]))}
    if op == "intersection":
        return {"Some((&%s.prefix, %s%s.value.some, %s%s.value.some))" % (x, m, L(em[1]), m, R(em[2])) for x in (L(em[1]), R(em[2]))}
    if op == "difference":
        nm = "DifferenceMutItem" if mut else "DifferenceItem"
        return {"Some(%s{prefix: &%s.prefix, value: %s%s.value.some, right: %s})" % (nm, L(em[1]), m, L(em[1]), inh_r)}
    return {"Some((&%s.prefix, %s%s.value.some))" % (L(em[1]), m, L(em[1]))}


# ---------------------------------------------------------------- programs
def iter_program(F, op, it_short, kind, lpm):
    """next() on an iterator whose stack holds exactly one entry of the given kind"""
    npath = F.short[it_short]
    spec = OPS[op]
    vname = spec["names"][kind]

    def prog(it):
        params = C.fn_params(F, npath)
        selfv = absint.unknown(it, params[0][1], "self")
        st = it.force(selfv.cell)
        tl = it.force(it.force(st.fields["table_l"]).cell)
        tr = it.force(it.force(st.fields["table_r"]).cell)
        l, r = SymV("l"), SymV("r")
        if kind in ("both", "fl", "fr"):
            fields = {"0": Cell(l, "0"), "1": Cell(r, "1")}
            pl, pr = "%s[l].prefix" % tl.arena.name, "%s[r].prefix" % tr.arena.name
            it.assume_rel(pl, pr, {"both": (EQ, None, None), "fl": (SUP, None, None), "fr": (SUB, None, None)}[kind])
        elif kind == "ol":
            fields = {"0": Cell(l, "0")}
        else:
            fields = {"0": Cell(r, "0")}
        idx = StructV(spec["enum"], vname, fields)
        nodes_cell = st.fields["nodes"]
        vty = F.types[[f for f in F.adts[st.adt]["variants"][0]["fields"] if f["name"] == "nodes"][0]["ty"]]
        elem = F.types[vty["a"][0]]
        if lpm == "lr":
            item = TupleV([Cell(idx, "0"), Cell(UnkV(elem["a"][1], "inh_l"), "1"), Cell(UnkV(elem["a"][2], "inh_r"), "2")])
        elif lpm == "r":
            item = TupleV([Cell(idx, "0"), Cell(UnkV(elem["a"][1], "inh_r"), "1")])
        else:
            item = idx
        nodes_cell.value = VecV(VecObj("self.nodes", [item], None))
        it.emit("entry", entry=kind)
        return it.run_fn(npath, [selfv])
    return prog


def ctor_program(F, ctor_short):
    """set-operation constructor on two unknown views (any positions, any relation of their nodes)"""
    cpath = F.short[ctor_short]

    def prog(it):
        params = C.fn_params(F, cpath)
        args = [absint.unknown(it, ty, nm) for nm, ty, _ in params]
        return it.run_fn(cpath, args)
    return prog


def R(v):
    return repr(v).replace("?", "")


def pushes_of(p, lpm, vec="self.nodes"):
    """[(entry, ann_l, ann_r)] as printed"""
    out = []
    for e in p.events:
        if e.kind == "vec_push" and e["vec"] == vec:
            v = e["val"]
            if isinstance(v, TupleV):
                c = [R(x.value) for x in v.cells]
                if lpm == "lr":
                    out.append((c[0], c[1], c[2]))
                else:
                    out.append((c[0], None, c[1]))
            else:
                out.append((R(v), None, None))
    return out


def decompose(op, mut, res):
    """emitted item -> dict(kind, prefix, l, r, ann_l, ann_r) as printed; None for no emission"""
    if not (isinstance(res, StructV) and res.adt == OPTION):
        return {"kind": "?", "raw": R(res)}
    if res.variant == "None":
        return None
    v = res.fields["0"].value
    d = {"kind": None, "prefix": None, "l": None, "r": None, "ann_l": None, "ann_r": None}
    fv = lambda c: R(c.value)
    if op == "union" and not mut and isinstance(v, StructV):
        d["kind"] = {"Left": "L", "Right": "R", "Both": "LR"}.get(v.variant, v.variant)
        d["prefix"] = fv(v.fields["prefix"])
        if v.variant == "Left":
            d["l"], d["ann_r"] = fv(v.fields["left"]), fv(v.fields["right"])
        elif v.variant == "Right":
            d["ann_l"], d["r"] = fv(v.fields["left"]), fv(v.fields["right"])
        else:
            d["l"], d["r"] = fv(v.fields["left"]), fv(v.fields["right"])
        return d
    if op == "union" and mut and isinstance(v, TupleV):
        d["prefix"] = fv(v.cells[0])
        lo, ro = v.cells[1].value, v.cells[2].value
        ls = isinstance(lo, StructV) and lo.variant == "Some"
        rs = isinstance(ro, StructV) and ro.variant == "Some"
        d["kind"] = "LR" if ls and rs else "L" if ls else "R" if rs else "none"
        d["l"] = R(lo.fields["0"].value) if ls else None
        d["r"] = R(ro.fields["0"].value) if rs else None
        return d
    if op == "intersection" and isinstance(v, TupleV):
        d.update(kind="LR", prefix=fv(v.cells[0]), l=fv(v.cells[1]), r=fv(v.cells[2]))
        return d
    if op == "difference" and isinstance(v, StructV):
        d.update(kind="L", prefix=fv(v.fields["prefix"]), l=fv(v.fields["value"]), ann_r=fv(v.fields["right"]))
        return d
    if op == "covering" and isinstance(v, TupleV):
        d.update(kind="L", prefix=fv(v.cells[0]), l=fv(v.cells[1]))
        return d
    return {"kind": "?", "raw": R(res)}


def expected_item(op, mut, em, lpm):
    if em is None:
        return None
    m = "&mut " if mut else "&"
    L = lambda k: "%s[%s]" % (TL, k)
    Rr = lambda k: "%s[%s]" % (TR, k)
    d = {"kind": em[0], "prefix": None, "l": None, "r": None, "ann_l": None, "ann_r": None}
    if em[0] == "L":
        d["prefix"] = {"&%s.prefix" % L(em[1])}
        d["l"] = m + L(em[1]) + ".value.some"
        if op == "union" and not mut or op == "difference":
            d["ann_r"] = "inh_r"
    elif em[0] == "R":
        d["prefix"] = {"&%s.prefix" % Rr(em[1])}
        d["r"] = m + Rr(em[1]) + ".value.some"
        if op == "union" and not mut:
            d["ann_l"] = "inh_l"
    else:
        d["prefix"] = {"&%s.prefix" % L(em[1]), "&%s.prefix" % Rr(em[2])}
        d["l"] = m + L(em[1]) + ".value.some"
        d["r"] = m + Rr(em[2]) + ".value.some"
    if op in ("union",) and not mut:
        d["l"] = d["l"] and d["l"].replace("&mut ", "&")
    return d


def check_arm(rep, F, rules, op, it_short, kind, p, mut, lpm, mode):
    """compare one path of one arm with the specification.
    mode 'struct': pushes (entries, order) and emission (kind, key, values);  'ann': LPM annotations of pushes and
    items (only where the structure agrees);  'repr': which node's stored prefix is reported (only where the
    structure agrees)."""
    f = PF(p)
    names = OPS[op]["names"]
    e = {"both": ("both", "l", "r"), "fl": ("fl", "l", "r"), "fr": ("fr", "l", "r"), "ol": ("ol", "l"), "orr": ("orr", "r")}[kind]
    where = "%s[%s]" % (it_short, names[kind])
    ins = C.inputs_str(p, 16)
    got_push = pushes_of(p, lpm)
    got = decompose(op, mut, p.result[1]) if p.result[0] == "ret" else None
    try:
        want_push, em = arm(op, f, e)
        want_items = []
        for x in want_push:
            al, ar = annotate(f, x, "inh_l", "inh_r", lpm)
            want_items.append((entry_str(op, x), al if "l" in lpm else None, ar if "r" in lpm else None))
    except Missing as m:
        if mode == "struct":
            rep.bad(rules["push"], where, "unjustified", "%s decides (pushes %s, returns %s) without having examined %s (inputs: %s)"
                    % (where, [x[0] for x in got_push], got, m, ins), config=F.config)
        return
    want = expected_item(op, mut, em, lpm)
    push_struct_ok = [x[0] for x in got_push] == [x[0] for x in want_items]
    # the key reported for an item stored on both sides may be either node's prefix: same key (C05); which
    # representation it is matters only to C18
    def struct_eq(g, w):
        if g is None or w is None:
            return g is None and w is None
        if g.get("kind") != w["kind"] or g.get("l") != w["l"] or g.get("r") != w["r"]:
            return False
        keyset = set(w["prefix"])
        if kind == "both":
            keyset |= {"&%s[l].prefix" % TL, "&%s[r].prefix" % TR}     # equal keys (entry invariant)
        return g.get("prefix") in keyset
    emit_struct_ok = struct_eq(got, want)
    if mode == "struct":
        ok = True
        if not push_struct_ok:
            rep.bad(rules["push"], where, "pushes", "%s: for these inputs the entries to push are %s (in this order), the code pushes %s (inputs: %s)"
                    % (where, [x[0] for x in want_items], [x[0] for x in got_push], ins), config=F.config)
            ok = False
        if not emit_struct_ok:
            rep.bad(rules["emit"], where, "emission:" + ("none" if want is None else want["kind"]),
                    "%s: for these inputs next() must yield %s, it yields %s (inputs: %s)" % (where, show_item(want), got, ins), config=F.config)
            ok = False
        if ok:
            rep.ok(rules["push"], where, "pushes=%d %s" % (len(want_items), "emit" if em else "skip"),
                   sample={"inputs": ins, "pushes": [x[0] for x in got_push], "item": got} if len(want_items) >= 2 and em else None)
        return
    if not (push_struct_ok and emit_struct_ok):
        if mode == "ann" and not push_struct_ok and rules.get("pairing"):
            # the annotation invariant attaches a node's own value exactly when an entry *pairs* that node: entries that pair
            # other nodes than specified leave the invariant unestablished
            rep.bad(rules["pairing"], where, "pairing", "%s: the entries to push are %s, the code pushes %s — the pushed entries do not pair the specified "
                    "nodes, so the LPM annotation invariant (own value of a paired node, else inherited) is not established (inputs: %s)"
                    % (where, [x[0] for x in want_items], [x[0] for x in got_push], ins), config=F.config)
        return          # otherwise a structural difference is the business of C05-C07 / C13
    if mode == "ann":
        ok = True
        if got_push != want_items:
            rep.bad(rules["ann"], where, "annotations", "%s: the pushed entries must carry the annotations %s, the code pushes %s (inputs: %s)"
                    % (where, want_items, got_push, ins), config=F.config)
            ok = False
        if want is not None and (got.get("ann_l") != want["ann_l"] or got.get("ann_r") != want["ann_r"]):
            rep.bad(rules["ann"], where, "item-annotation", "%s: the item must report the inherited match of the other side (%s / %s), it reports %s / %s "
                    "(inputs: %s)" % (where, want["ann_l"], want["ann_r"], got.get("ann_l"), got.get("ann_r"), ins), config=F.config)
            ok = False
        if ok:
            rep.ok(rules["ann"], where, "annotations",
                   sample={"inputs": ins, "pushes": got_push} if any(x[1] and x[1].startswith("Some") or x[2] and x[2].startswith("Some") for x in got_push) else None)
        return
    if mode == "repr":
        if want is None:
            return
        if got.get("prefix") not in want["prefix"]:
            rep.bad(rules["repr"], where, "prefix-of-valueless-side", "%s: the item's value(s) come from %s but the reported prefix is %s, the stored "
                    "representation of a node that holds no value in this item (inputs: %s)" % (where, sorted(want["prefix"]), got.get("prefix"), ins),
                    config=F.config)
        else:
            rep.ok(rules["repr"], where, "prefix of a valued side")


def show_item(w):
    if w is None:
        return "nothing"
    return {k: (sorted(v) if isinstance(v, set) else v) for k, v in w.items() if v is not None}


def arm_paths(ctx, F, op, it_short, kind, lpm):
    key = (F.config, "arm;%s;%s" % (it_short, kind))
    if key not in ctx._paths:
        # exactly one iteration of the stack loop: a path is cut when the arm does not emit
        ctx._paths[key] = absint.explore(F, None, None, {"loop_bound": 1}, program=iter_program(F, op, it_short, kind, lpm), max_paths=60000)
    return ctx._paths[key]


def ctor_paths(ctx, F, ctor_short):
    key = (F.config, "ctor;" + ctor_short)
    if key not in ctx._paths:
        ctx._paths[key] = absint.explore(F, None, None, {"loop_bound": 2}, program=ctor_program(F, ctor_short), max_paths=60000)
    return ctx._paths[key]


def check_op(ctx, rep, F, op, rules, only_mut=None, mode="struct"):
    """all arms of all iterators of one operation.  rules: dict push/emit/ann/repr -> rule id"""
    n = 0
    spec = OPS[op]
    for it_short, info in spec["iters"].items():
        if only_mut is not None and info["mut"] != only_mut:
            continue
        if it_short not in F.short:
            rep.bad(rules.get("push") or rules.get("ann") or rules.get("repr"), it_short, "missing", "%s not found" % it_short, kind="unrecognised", config=F.config)
            continue
        for kind in KINDS:
            if spec["names"][kind] is None:
                continue
            paths = arm_paths(ctx, F, op, it_short, kind, info["lpm"])
            where = "%s[%s]" % (it_short, spec["names"][kind])
            rule0 = rules.get("push") or rules.get("ann") or rules.get("repr")
            C.report_unrecognised(rep, rule0, where, paths, F)
            for p in paths:
                if p.result[0] == "panic" and mode == "struct":
                    rep.bad(rule0, where, "panics", "%s can panic: %s (inputs: %s)" % (where, C.result_str(p), C.inputs_str(p, 10)), config=F.config)
            for p in paths:
                if p.result[0] not in ("ret", "cut"):
                    continue
                check_arm(rep, F, rules, op, it_short, kind, p, info["mut"], info["lpm"], mode)
                if mode == "struct" and rules.get("partition"):
                    check_partition(rep, F, rules["partition"], op, it_short, kind, p, info["lpm"])
                n += 1
    return n


# ---------------------------------------------------------------- constructors
def arena_name(it_val):
    v = it_val
    for _ in range(6):
        if isinstance(v, RefV):
            v = v.cell.value
        else:
            break
    if isinstance(v, UnkV):
        return v.name.lstrip("*")
    return v.arena.name if isinstance(v, absint.TableV) else None


def loc_key(p, suffix):
    for k, v in p.inputs:
        if k.startswith("variant:") and k.endswith(suffix):
            base = k[len("variant:"):]
            return base + (".0" if v == "Node" else ".1"), v
    return None, None


def check_ctor(ctx, rep, F, op, ctor_short, lpm, rule, rule_seed=None, mode="struct"):
    paths = ctor_paths(ctx, F, ctor_short)
    C.report_unrecognised(rep, rule, ctor_short, paths, F)
    n = 0
    for p in paths:
        if p.result[0] == "panic":
            rep.bad(rule, ctor_short, "panics", "%s can panic: %s (inputs: %s)" % (ctor_short, C.result_str(p), C.inputs_str(p, 10)), config=F.config)
    for p in C.complete(paths):
        n += 1
        res = p.result[1]
        ins = C.inputs_str(p, 12)
        if not isinstance(res, StructV) or "nodes" not in res.fields:
            rep.bad(rule, ctor_short, "shape", "%s returns %r" % (ctor_short, res), kind="unrecognised", config=F.config)
            continue
        tl, tr = arena_name(res.fields["table_l"].value), arena_name(res.fields["table_r"].value)
        lk, lv = loc_key(p, "self.loc")
        rk, rv = loc_key(p, "view(other).loc")
        if lk is None or rk is None:
            rep.bad(rule, ctor_short, "unjustified:positions", "%s builds its traversal without reading both views' positions (inputs: %s)" % (ctor_short, ins), config=F.config)
            continue
        if tl != "self.table" or tr != "view(other).table":
            rep.bad(rule, ctor_short, "tables", "%s: left/right tables are %s/%s, expected self's and other's" % (ctor_short, tl, tr), config=F.config)
            continue
        f = PF(p, tl, tr)
        nodes = res.fields["nodes"].value
        got = [repr(x).replace("?", "") for x in nodes.obj.items] if isinstance(nodes, VecV) else None
        try:
            want_e = pair(op, f, lk, rk)
            want = []
            for e in want_e:
                al, ar = annotate(f, e, "None", "None", lpm)
                want.append(stack_item_str(op, e, al, ar, lpm))
        except Missing as m:
            rep.bad(rule, ctor_short, "unjustified", "%s builds the initial stack %s without having examined %s (inputs: %s)" % (ctor_short, got, m, ins), config=F.config)
            continue
        plain = lambda s: s.split(", Some((")[0].split(", None")[0].lstrip("(") if lpm else s
        struct_ok = got is not None and [plain(x) for x in got] == [plain(x) for x in want]
        if mode == "ann":
            if struct_ok and got != want:
                rep.bad(rule_seed, ctor_short, "seed", "%s: the initial entries must carry the annotations %s (a node's own value only for the "
                        "side it pairs, nothing inherited), they carry %s (inputs: %s)" % (ctor_short, want, got, ins), config=F.config)
            elif struct_ok:
                rep.ok(rule_seed, ctor_short, "%s/%s" % (lv, rv), sample={"inputs": ins, "stack": got} if len(got) == 2 else None)
            continue
        if not struct_ok:
            rep.bad(rule, ctor_short, "initial-entries", "%s: the view nodes %s / %s have relation %s, the initial stack must be %s, it is %s (inputs: %s)"
                    % (ctor_short, lk, rk, p.rels.get((C.canon_prefix(tl, lk), C.canon_prefix(tr, rk))), [plain(x) for x in want],
                       [plain(x) for x in got] if got else got, ins), config=F.config)
        else:
            rep.ok(rule, ctor_short, "%s/%s" % (lv, rv), sample={"inputs": ins, "stack": got} if len(got) == 2 else None)
    return n


# ---------------------------------------------------------------- UnionItem accessors (observe_at of C05 / C08)
ITEM_ACCESSORS = {
    # fn: {variant: expected result}; S/N = the stored annotation is Some / None
    "UnionItem::prefix": {"Left": "&**self.prefix", "Right": "&**self.prefix", "Both": "&**self.prefix"},
    "UnionItem::both": {"Left": "None", "Right": "None", "Both": "Some((&**self.prefix, &**self.left, &**self.right))"},
    "UnionItem::left": {"Left": "Some((&**self.prefix, &**self.left))", "Both": "Some((&**self.prefix, &**self.left))",
                        "Right:N": "None", "Right:S": "Some(*self.left.some)"},
    "UnionItem::right": {"Right": "Some((&**self.prefix, &**self.right))", "Both": "Some((&**self.prefix, &**self.right))",
                         "Left:N": "None", "Left:S": "Some(*self.right.some)"},
}


def check_item_accessors(ctx, rep, F, rule, names):
    for short in names:
        if short not in F.short:
            rep.bad(rule, short, "missing", "%s not found" % short, kind="unrecognised", config=F.config)
            continue
        table = ITEM_ACCESSORS[short]
        paths = ctx.paths(F, short, {"loop_bound": 1})
        C.report_unrecognised(rep, rule, short, paths, F)
        for p in paths:
            if p.result[0] != "ret":
                rep.bad(rule, short, "not total", "%s: %s" % (short, C.result_str(p)), config=F.config)
                continue
            inp = dict(p.inputs)
            var = inp.get("variant:*self")
            ann = inp.get("opt:*self.left") or inp.get("opt:*self.right")
            key = var if var in table else "%s:%s" % (var, ann)
            want = table.get(key)
            got = repr(p.result[1]).replace("?", "")
            if want is None:
                rep.bad(rule, short, "unjustified:" + str(var), "%s answers %s for a %s item without reading the stored annotation" % (short, got, var), config=F.config)
            elif got != want:
                rep.bad(rule, short, "%s:wrong" % key, "%s on a %s item must return %s, it returns %s" % (short, key, want, got), config=F.config)
            else:
                rep.ok(rule, short, key)


# ---------------------------------------------------------------- independent of the tables: nothing is lost, nothing is visited twice
def entry_nodes(op, e_str):
    """(kind, [left-table nodes], [right-table nodes]) of a printed stack entry"""
    import re
    m = re.match(r"\w+::(\w+)\{(.*)\}", e_str)
    if not m:
        return None
    v, args = m.group(1), [a.strip() for a in m.group(2).split(",")]
    names = OPS[op]["names"]
    kind = [k for k, n in names.items() if n == v]
    if not kind:
        return None
    kind = kind[0]
    if kind in ("both", "fl", "fr"):
        return kind, [args[0]], [args[1]]
    if kind == "ol":
        return kind, [args[0]], []
    return kind, [], [args[0]]


def check_partition(rep, F, rule, op, it_short, kind, p, lpm):
    """Semantic step rule that does not use the specification tables: after one arm, the nodes still to be visited are the children
    of the node(s) the arm consumed plus the operand it did not consume.  Every such node of a side the operation must not lose
    (left: always; right: union only) appears in exactly one pushed entry, and no node is pushed twice — except under the
    covering prune (right node valued)."""
    f = PF(p)
    names = OPS[op]["names"]
    where = "%s[%s]" % (it_short, names[kind])
    ins = C.inputs_str(p, 14)
    consumed_l = kind in ("both", "fl", "ol")
    consumed_r = kind in ("both", "fr", "orr")
    rem_l, rem_r = [], []
    try:
        if op == "covering" and kind in ("both", "fr") and f.valued(f.tr, "r"):
            return      # covered: the whole left sub-tree is skipped by definition
    except Missing:
        return          # reported by the table comparison as an unjustified decision
    try:
        if kind in ("both", "fl", "fr", "ol"):
            if consumed_l:
                rem_l += [c for c in (f.child(f.tl, "l", "left"), f.child(f.tl, "l", "right")) if c]
            else:
                rem_l.append("l")
    except Missing:
        return
    try:
        if op == "union" and kind in ("both", "fl", "fr", "orr"):
            if consumed_r:
                rem_r += [c for c in (f.child(f.tr, "r", "left"), f.child(f.tr, "r", "right")) if c]
            else:
                rem_r.append("r")
    except Missing:
        return
    got_l, got_r = [], []
    for e, _, _ in pushes_of(p, lpm):
        en = entry_nodes(op, e)
        if en is None:
            continue
        got_l += en[1]
        got_r += en[2]
    dup = [x for x in set(got_l) if got_l.count(x) > 1] + [x for x in set(got_r) if got_r.count(x) > 1]
    if dup:
        rep.bad(rule, where, "visited-twice", "%s pushes node(s) %s in more than one entry: their entries would be yielded twice (inputs: %s)" % (where, dup, ins), config=F.config)
        return
    lost_l = [x for x in rem_l if x not in got_l]
    lost_r = [x for x in rem_r if x not in got_r] if op == "union" else []
    if op == "intersection":
        lost_l = []         # pruning non-overlapping pairs is the operation; justified by the table rule
    if lost_l or lost_r:
        rep.bad(rule, where, "lost-subtree", "%s: after this step the nodes %s (left) / %s (right) are still to be visited, but the pushed entries "
                "%s do not mention %s: their entries would never be yielded (inputs: %s)"
                % (where, rem_l, rem_r, [x[0] for x in pushes_of(p, lpm)], lost_l + lost_r, ins), config=F.config)
    else:
        rep.ok(rule, where, "nothing lost, nothing twice")
