"""C09 — shortest-prefix match and cover list exactly the covering entries, in order.

R09.1 get_spm / get_spm_prefix / PrefixSet::get_spm return the projection of the *first* valued node of
      the covering chain of the query (certificate walk of C01), None iff the chain holds no value and
      its end is certified; every chain node before the answer had its value examined.
R09.2 cover / cover_keys / cover_values / PrefixSet::cover: the i-th call of next() on a fresh iterator
      returns the projection of the i-th valued node of the chain (so: each covering entry once, root
      first, strictly increasing length), and None once the chain is exhausted — checked for the first
      CALLS calls, and next() keeps returning None afterwards (fused) on the paths that reach the end.
R09.3 no effect on the map.
"""
from .. import absint
from ..absint import RefV, Cell
from . import common as C
from . import c01

OPTS = {"loop_bound": 2}
CALLS = 3
ASSUMES = ["C15 well-formed pre-state", "C17 prefix algebra (relation oracle)", "pt/models.py std model"]
LEVEL_TEXT = __doc__
DEEPER = False     # thorough tier: the three-call cover programs exceed the path budget with one more unrolling

SPM = {
    "PrefixMap::get_spm": "Some((&{T}[{k}].prefix, &{T}[{k}].value.some))",
    "PrefixMap::get_spm_prefix": "Some(&{T}[{k}].prefix)",
    "PrefixSet::get_spm": "Some(&{T}[{k}].prefix)",
}
COVER = {
    "PrefixMap::cover": ("<Cover as Iterator>::next", "Some((&{T}[{k}].prefix, &{T}[{k}].value.some))"),
    "PrefixMap::cover_keys": ("<CoverKeys as Iterator>::next", "Some(&{T}[{k}].prefix)"),
    "PrefixMap::cover_values": ("<CoverValues as Iterator>::next", "Some(&{T}[{k}].value.some)"),
    "PrefixSet::cover": ("<CoverKeys as Iterator>::next", "Some(&{T}[{k}].prefix)"),
}


def declare(rep):
    rep.rule("R09.1", "get_spm*: projection of the first valued node of the covering chain; None iff none and the end is certified")
    rep.rule("R09.2", "cover*: i-th next() = i-th valued node of the chain, then None (and stays None)")
    rep.rule("R09.3", "no effect on the map")
    rep.rule("R09.4", "(shared with C02) get_lpm* return the last element of the cover sequence: the deepest valued chain node")


def cover_program(F, ctor, nxt, calls):
    cpath, npath = F.short[ctor], F.short[nxt]

    def prog(it):
        args = [absint.unknown(it, ty, nm) for nm, ty, _ in C.fn_params(F, cpath)]
        itv = it.run_fn(cpath, args)
        cell = Cell(itv, "iter")
        out = []
        for i in range(calls):
            it.emit("next_call", n=i)
            out.append(it.run_fn(npath, [RefV(cell, True)]))
        return absint.TupleV([Cell(v, "r%d" % i) for i, v in enumerate(out)])
    return prog


def expected_sequence(W):
    """(list of valued chain nodes in order, index up to which the walk is justified)"""
    return W.valued


def run_config(ctx, rep, cfg, F):
    C.check_iterator_overrides(rep, F, "R09.2", lambda t: t.startswith("Cover"))
    n = 0
    for short, fmt in SPM.items():
        if short not in F.short:
            rep.bad("R09.1", short, "missing", "%s not found" % short, kind="unrecognised", config=cfg)
            continue
        paths = ctx.paths(F, short, OPTS)
        C.report_unrecognised(rep, "R09.1", short, paths, F)
        q = c01.query_name(F, F.short[short])
        for p in paths:
            if p.result[0] == "panic":
                rep.bad("R09.1", short, "panics", "%s can panic: %s" % (short, C.result_str(p)), config=cfg)
        for p in C.complete(paths):
            n += 1
            T = c01.table_of(p)
            W = C.Walk(p, T, "0", q)
            got = repr(p.result[1]).replace("?", "")
            ins = C.inputs_str(p, 14)
            first = None
            problem = None
            for x in W.chain:
                if not W.value_known(x):
                    problem = "node %s covers the query but its value was never examined" % x
                    break
                if x in W.valued:
                    first = x
                    break
            if problem is None and first is None and W.exact is None and not W.certified:
                problem = W.why
            if problem:
                rep.bad("R09.1", short, "unjustified", "%s answers %s although %s (chain %s; inputs: %s)" % (short, got, problem, W.chain, ins), config=cfg)
                continue
            want = fmt.format(T=T, k=first) if first else "None"
            if got != want:
                rep.bad("R09.1", short, "wrong answer", "%s: covering chain %s, valued %s: the answer must be %s, the function returns %s "
                        "(inputs: %s)" % (short, W.chain, W.valued, want, got, ins), config=cfg)
            else:
                rep.ok("R09.1", short, "first of %d" % len(W.valued))
            if any(e.kind in ("value_write", "link_write", "prefix_write", "count") for e in p.events):
                rep.bad("R09.3", short, "mutates", "%s changes the map" % short, config=cfg)
    for ctor, (nxt, fmt) in COVER.items():
        if ctor not in F.short or nxt not in F.short:
            rep.bad("R09.2", ctor, "missing", "%s / %s not found" % (ctor, nxt), kind="unrecognised", config=cfg)
            continue
        key = (cfg, "cover;" + ctor)
        if key not in ctx._paths:
            ctx._paths[key] = absint.explore(F, None, None, OPTS, program=cover_program(F, ctor, nxt, CALLS))
        paths = ctx._paths[key]
        C.report_unrecognised(rep, "R09.2", ctor, paths, F)
        for p in paths:
            if p.result[0] == "panic":
                rep.bad("R09.2", ctor, "panics", "%s;next can panic: %s (inputs: %s)" % (ctor, C.result_str(p), C.inputs_str(p, 10)), config=cfg)
        for p in C.complete(paths):
            n += 1
            T = c01.table_of(p)
            ins = C.inputs_str(p, 16)
            res = [repr(c.value).replace("?", "") for c in p.result[1].cells]
            if T is None:
                rep.bad("R09.2", ctor, "unjustified:no-facts", "%s: next() answers %s without examining the map" % (ctor, res), config=cfg)
                continue
            W = C.Walk(p, T, "0", "*prefix")
            # justification: every chain node up to the last answer must have a known value
            want = []
            problem = None
            vi = 0
            for i in range(CALLS):
                if vi < len(W.valued):
                    # all chain nodes before this valued one must be examined (they are: they precede it)
                    want.append(fmt.format(T=T, k=W.valued[vi]))
                    vi += 1
                else:
                    unk = [x for x in W.chain if not W.value_known(x)]
                    if unk:
                        problem = "node %s covers the query but its value was never examined" % unk[0]
                    elif W.exact is None and not W.certified:
                        problem = W.why
                    want.append("None")
            if problem and res != want:
                rep.bad("R09.2", ctor, "unjustified", "%s: next() answers %s although %s (chain %s; inputs: %s)" % (ctor, res, problem, W.chain, ins), config=cfg)
                continue
            if problem and res == want:
                # the answers agree with the part of the chain that was examined; the tail None is not certified
                rep.bad("R09.2", ctor, "unjustified-end", "%s: next() reports exhaustion although %s (chain %s; inputs: %s)" % (ctor, problem, W.chain, ins), config=cfg)
                continue
            if res != want:
                rep.bad("R09.2", ctor, "wrong sequence", "%s: covering chain %s, valued %s: successive next() calls must yield %s, they yield %s "
                        "(inputs: %s)" % (ctor, W.chain, W.valued, want, res, ins), config=cfg)
            else:
                rep.ok("R09.2", ctor, "sequence of %d" % len(W.valued),
                       sample={"chain": W.chain, "valued": W.valued, "answers": res} if len(W.valued) == 2 else None)
            if any(e.kind in ("value_write", "link_write", "prefix_write", "count") for e in p.events):
                rep.bad("R09.3", ctor, "mutates", "%s changes the map" % ctor, config=cfg)
    rep.floor("spm / cover paths checked (%s)" % cfg, n, 4000)
    # "longest-prefix match returns the last element of the cover sequence": the LPM rule of C02, shared
    from .. import engine
    from . import c02
    c02.run_config(ctx, engine.Renamed(rep, lambda r: "R09.4" if r.startswith("R02") else r), cfg, F)


def finalize(ctx, rep):
    F = ctx.main()
    key = (F.config, "cover;PrefixMap::cover")
    paths = ctx._paths.get(key) or absint.explore(F, None, None, OPTS, program=cover_program(F, "PrefixMap::cover", "<Cover as Iterator>::next", CALLS))
    seen = sum(1 for p in C.complete(paths) if len(C.Walk(p, c01.table_of(p) or "", "0", "*prefix").valued) >= 2)
    rep.canary("R09.2 explores chains with at least two covering entries (%d paths)" % seen, seen > 0)
