"""C02 — longest-prefix match returns the most specific covering entry.

For every path of get_lpm / get_lpm_prefix / get_lpm_mut / PrefixSet::get_lpm the certificate walk
(see C01) yields the chain of nodes that cover the query; the rule requires R02.1 the answer to be the
tabulated projection of the *deepest valued* node of that chain (None iff the chain holds no value),
R02.2 every node of the chain to have had its value examined (an answer that skips a covering node —
the root, a leaf, a node entered last — is unjustified), R02.3 the end of the chain to be certified
(the descent really stopped because nothing deeper covers the query), R02.4 no effect on the map.
Value-less leftover nodes are ordinary elements of the abstract pre-state, so independence from the
tree shape left by removals is part of every path.
"""
from . import common as C
from . import c01

OPTS = {"loop_bound": 3}
ASSUMES = ["C15 well-formed pre-state", "C17 prefix algebra (relation oracle)", "pt/models.py std model"]
LEVEL_TEXT = __doc__

LPM = {
    "PrefixMap::get_lpm": ("Some((&{T}[{k}].prefix, &{T}[{k}].value.some))", "R02.1"),
    "PrefixMap::get_lpm_prefix": ("Some(&{T}[{k}].prefix)", "R02.1"),
    "PrefixMap::get_lpm_mut": ("Some((&{T}[{k}].prefix, &mut {T}[{k}].value.some))", "R02.1"),
    "PrefixSet::get_lpm": ("Some(&{T}[{k}].prefix)", "R02.1"),
}


def declare(rep):
    rep.rule("R02.1", "answer = projection of the deepest valued node of the covering chain; None iff the chain holds no value")
    rep.rule("R02.2", "every node of the covering chain had its value examined")
    rep.rule("R02.3", "the end of the chain is certified (exact node, or nothing deeper covers the query)")
    rep.rule("R02.4", "no effect on the map")


def check_lpm(rep, F, where, p, T, start, q, fmt, none="None", rules=("R02.1", "R02.2", "R02.3", "R02.4")):
    W = C.Walk(p, T, start, q)
    got = repr(p.result[1]).replace("?", "")
    ins = C.inputs_str(p, 14)
    if not W.covers:
        rep.bad(rules[2], where, "start-does-not-cover", "%s: start node is not known to cover the query (%s)" % (where, W.start_rel), config=F.config)
        return
    for x in W.chain:
        if not W.value_known(x):
            rep.bad(rules[1], where, "unexamined:" + ("root" if x == start else "inner"),
                    "%s answers %s although node %s covers the query and its value was never examined (chain %s; inputs: %s)"
                    % (where, got, x, W.chain, ins), config=F.config)
            return
    if W.exact is None and not W.certified:
        rep.bad(rules[2], where, "uncertified-end", "%s answers %s although %s (chain %s; inputs: %s)" % (where, got, W.why, W.chain, ins),
                config=F.config)
        return
    want = fmt.format(T=T, k=W.valued[-1]) if W.valued else none
    if got != want:
        rep.bad(rules[0], where, "wrong answer:" + ("none" if not W.valued else "node"),
                "%s: the nodes covering the query are %s, those holding a value %s, so the answer must be %s; the function returns %s "
                "(inputs: %s)" % (where, W.chain, W.valued, want, got, ins), config=F.config)
    else:
        rep.ok(rules[0], where, "chain=%d valued=%d" % (len(W.chain), len(W.valued)),
               sample={"chain": W.chain, "valued": W.valued, "answer": got, "inputs": ins} if len(W.valued) > 1 else None)
    if any(e.kind in ("value_write", "link_write", "prefix_write", "count", "vec_push") and not e["vec"] if e.kind == "vec_push" else
           e.kind in ("value_write", "link_write", "prefix_write", "count") for e in p.events):
        rep.bad(rules[3], where, "mutates", "%s changes the map" % where, config=F.config)


def run_config(ctx, rep, cfg, F, funcs=None, floor=1000):
    n = 0
    for short, (fmt, rule) in (funcs if funcs is not None else LPM).items():
        if short not in F.short:
            rep.bad("R02.1", short, "missing", "%s not found" % short, kind="unrecognised", config=cfg)
            continue
        paths = ctx.paths(F, short, OPTS)
        C.report_unrecognised(rep, "R02.1", short, paths, F)
        q = c01.query_name(F, F.short[short])
        for p in paths:
            if p.result[0] == "panic":
                rep.bad("R02.1", short, "panics", "%s can panic: %s" % (short, C.result_str(p)), config=cfg)
        for p in C.complete(paths):
            check_lpm(rep, F, short, p, c01.table_of(p), "0", q, fmt)
            n += 1
    rep.floor("LPM paths checked (%s)" % cfg, n, floor)


def finalize(ctx, rep):
    F = ctx.main()
    fired = False
    for p in C.complete(ctx.paths(F, "PrefixMap::get_lpm", OPTS)):
        W = C.Walk(p, c01.table_of(p), "0", "*prefix")
        if len(W.valued) >= 2:
            r2 = type(rep)(rep.prop)
            check_lpm(r2, F, "canary", p, c01.table_of(p), "0", "*prefix", "Some((&{T}[0].prefix, &{T}[0].value.some))".replace("{T}[0]", "{T}[{k}]").replace("{k}", W.valued[0]))
            fired = bool(r2.findings)
            break
    rep.canary("R02.1 fires when the shallowest instead of the deepest valued node is expected", fired)
