"""C07 — difference and covering difference select exactly the specified left entries.

Arms Both / FirstL / FirstR / OnlyL of Difference, DifferenceMut, CoveringDifference, CoveringDifferenceMut and the four
constructors against the specification: R07.1 pair classification (right-only pairs vanish, non-overlapping pairs
become OnlyL) and one-sided descents (a left container keeps its untouched sibling in stack order, a right container
keeps nothing and falls back to OnlyL), including the covering prune: as soon as the right node of Both / FirstR holds
a value the arm pushes and emits nothing, and the right value is consulted nowhere else; R07.3 difference emits iff the
left node holds a value and, in Both, the right node does not — always the left value; R07.6 the initial stacks for any
two view positions.
"""
from . import setop_prop as S

ASSUMES = S.ASSUMES
LEVEL_TEXT = __doc__
RULES = {"push": "R07.1", "emit": "R07.3", "ctor": "R07.6", "partition": "R07.2"}


def declare(rep):
    rep.rule("R07.2", "independent of the tables: no node still to be visited is dropped (left always, right for union), none is pushed twice")
    rep.rule("R07.1", "entries pushed by every arm of the four iterators as specified (incl. the covering prune)")
    rep.rule("R07.3", "emission: the left value iff selected by the operation")
    rep.rule("R07.6", "initial stacks for any two view positions")


def run_config(ctx, rep, cfg, F):
    S.run_ops(ctx, rep, cfg, F, ["difference", "covering"], RULES, "struct", 1000)


def finalize(ctx, rep):
    S.swap_canary(ctx, rep, "difference", RULES)
