"""C11 — a view addresses exactly the entries under its prefix; left/right split by the next bit.

Table B.5 of DESIGN.md, checked on every path of every navigation / accessor function of TrieView and TrieViewMut,
for both kinds of position (Node(i): a real node; Virtual(p, i): prefix p on the edge above real node i):
R11.1 left() / right() / has_left() / has_right() / split(): at a real node the side exists iff the node's link on that
      side is present and leads to that child; at a virtual position exactly one side exists — the one given by the
      branch bit of the real node below under p — and it leads to that real node; the mutable forms return
      Err(self) (same position) when the side does not exist; has_* agree; split is the pair;
R11.2 prefix() is the node's stored prefix resp. p; value() / prefix_value() / value_mut() / prefix_value_mut() are
      the node's resp. None at a virtual position; set() / remove() act on the node resp. refuse (Err(value) / None,
      no effect) at a virtual position; iterators start at the position's node (C03 R03.6);
R11.3 view() / view_mut() of a map or set is Node(root) on its table; view() of a TrieViewMut is the same position on
      the same table; view_at / view_mut_at are find (C12).
The existence clause for canonical tries follows from C15 and is not re-derived here.
"""
from ..absint import StructV, TupleV, RefV, UnkV, SymV, OPTION, RESULT
from . import common as C
from . import c12

ASSUMES = ["C15 well-formed tries", "C17 (branch bit)", "pt/models.py std model"]
LEVEL_TEXT = __doc__
OPTS = {"loop_bound": 2}

NAV = {
    "TrieView::left": ("left", "opt"), "TrieView::right": ("right", "opt"),
    "TrieViewMut::left": ("left", "res"), "TrieViewMut::right": ("right", "res"),
    "TrieViewMut::has_left": ("left", "bool"), "TrieViewMut::has_right": ("right", "bool"),
    "TrieViewMut::split": ("both", "pair"),
}
# accessor: (answer at Node(i), answer at Virtual(p,i)); {T} table, {i} node key, {p} name of the virtual prefix
ACC = {
    "TrieView::prefix": ("&{T}[{i}].prefix", "&{p}"),
    "TrieViewMut::prefix": ("&{T}[{i}].prefix", "&{p}"),
    "TrieView::value": ("VALUE&", "None"), "TrieViewMut::value": ("VALUE&", "None"),
    "TrieView::prefix_value": ("PV&", "None"), "TrieViewMut::prefix_value": ("PV&", "None"),
    "TrieViewMut::value_mut": ("VALUE&mut ", "None"), "TrieViewMut::prefix_value_mut": ("PV&mut ", "None"),
}
ROOTS = {"<&PrefixMap as AsView>::view": "self.table", "<&PrefixSet as AsView>::view": "self.0.table",
         "<&mut PrefixMap as AsViewMut>::view_mut": "self.table", "<&mut PrefixSet as AsViewMut>::view_mut": "self.0.table"}


def declare(rep):
    rep.rule("R11.1", "left/right/has_left/has_right/split follow table B.5 for real and virtual positions")
    rep.rule("R11.2", "prefix/value/prefix_value(+_mut)/set/remove: the node's at a real node; p / None / refusal at a virtual position")
    rep.rule("R11.3", "view()/view_mut() constructors: root position on the map's table; view() of a mutable view keeps position and table")


def position(p):
    """(variant, base name, idx key, virtual prefix name)"""
    for k, v in p.inputs:
        if k.startswith("variant:") and k.endswith("loc"):
            base = k[len("variant:"):]
            if v == "Node":
                return v, base, base + ".0", None
            return v, base, base + ".1", base + ".0"
    return None, None, None, None


def table_name(p, default="self.table"):
    for e in p.events:
        if e.kind == "arena_index":
            return e["table"]
    return default


def side_exists(p, var, T, idx, pname, side):
    """(exists, target key) from the facts of the path; raises KeyError(fact) when not examined"""
    if var == "Node":
        v = None
        for k, x in p.inputs:
            if k == "opt:%s[%s].%s" % (T, idx, side):
                v = x
        if v is None:
            raise KeyError("the %s link of the view's node" % side)
        return (v == "S"), "%s.%s" % (idx, side[0])
    sd = p.sides.get((pname, C.canon_prefix(T, idx)))
    if sd is None:
        raise KeyError("the branch bit of the real node below the virtual position")
    return (sd == (side == "right")), idx


def run_config(ctx, rep, cfg, F, only_acc=None):
    n = 0
    for short, (side, kind) in ({} if only_acc is not None else NAV).items():
        if short not in F.short:
            rep.bad("R11.1", short, "missing", "%s not found" % short, kind="unrecognised", config=cfg)
            continue
        paths = ctx.paths(F, short, OPTS)
        C.report_unrecognised(rep, "R11.1", short, paths, F)
        for p in paths:
            if p.result[0] == "panic":
                rep.bad("R11.1", short, "panics", "%s can panic: %s" % (short, C.result_str(p)), config=cfg)
        for p in C.complete(paths):
            n += 1
            var, base, idx, pname = position(p)
            ins = C.inputs_str(p, 10)
            T = table_name(p)
            res = p.result[1]
            if var is None:
                rep.bad("R11.1", short, "unjustified", "%s answers %r without reading the view's position" % (short, res), config=cfg)
                continue
            try:
                sides = ["left", "right"] if side == "both" else [side]
                want = [side_exists(p, var, T, idx, pname, s) for s in sides]
            except KeyError as m:
                rep.bad("R11.1", short, "unjustified", "%s answers %s without having examined %s (inputs: %s)" % (short, repr(res)[:120], m.args[0], ins), config=cfg)
                continue
            def bad(msg):
                rep.bad("R11.1", short, "%s:%s" % (var, msg.split(":")[0]), "%s at a %s position (%s): %s; it returns %s (inputs: %s)"
                        % (short, var, idx, msg, repr(res)[:200].replace("?", ""), ins), config=cfg)
            if kind == "bool":
                got = repr(res)
                if got != ("true" if want[0][0] else "false"):
                    bad("wrong answer: the %s side %s" % (side, "exists" if want[0][0] else "does not exist"))
                else:
                    rep.ok("R11.1", short, "%s:%s" % (var, want[0][0]))
                continue
            results = [c.value for c in res.cells] if kind == "pair" and isinstance(res, TupleV) else [res]
            okall = True
            for (exists, target), r, s in zip(want, results, sides):
                hit, loc = c12.outcome(r)
                if exists:
                    if hit != "hit" or loc is None or loc[0] != "Node" or loc[1] != target:
                        bad("wrong %s view: the %s side exists and is the sub-trie at node %s" % (s, s, target))
                        okall = False
                else:
                    if hit != "miss":
                        bad("phantom %s view: the %s side does not exist" % (s, s))
                        okall = False
                    elif kind == "res" and (loc is None or loc[1] != idx or loc[0] != var):
                        bad("Err-not-self: on failure the original view (%s %s) must be handed back, got %s" % (var, idx, loc))
                        okall = False
            if okall:
                rep.ok("R11.1", short, "%s:%s" % (var, ",".join(str(w[0]) for w in want)),
                       sample={"position": [var, idx], "inputs": ins, "result": repr(res)[:160]} if var == "Virtual" else None)
    # ---- accessors
    for short, (at_node, at_virtual) in (only_acc if only_acc is not None else ACC).items():
        if short not in F.short:
            rep.bad("R11.2", short, "missing", "%s not found" % short, kind="unrecognised", config=cfg)
            continue
        paths = ctx.paths(F, short, OPTS)
        C.report_unrecognised(rep, "R11.2", short, paths, F)
        for p in paths:
            if p.result[0] == "panic":
                rep.bad("R11.2", short, "panics", "%s can panic: %s" % (short, C.result_str(p)), config=cfg)
        for p in C.complete(paths):
            n += 1
            var, base, idx, pname = position(p)
            T = table_name(p)
            got = repr(p.result[1]).replace("?", "")
            ins = C.inputs_str(p, 8)
            if var is None:
                rep.bad("R11.2", short, "unjustified", "%s answers %s without reading the view's position" % (short, got), config=cfg)
                continue
            if var == "Virtual":
                want = at_virtual.format(p=pname)
            else:
                vs = [x for k, x in p.inputs if k == "opt:%s[%s].value" % (T, idx)]
                if at_node.startswith("VALUE") or at_node.startswith("PV"):
                    if not vs:
                        rep.bad("R11.2", short, "unjustified", "%s answers %s without examining the node's value" % (short, got), config=cfg)
                        continue
                    m = at_node[5:] if at_node.startswith("VALUE") else at_node[2:]
                    if vs[0] == "N":
                        want = "None"
                    elif at_node.startswith("VALUE"):
                        want = "Some(%s%s[%s].value.some)" % (m, T, idx)
                    else:
                        want = "Some((&%s[%s].prefix, %s%s[%s].value.some))" % (T, idx, m, T, idx)
                else:
                    want = at_node.format(T=T, i=idx)
            if got != want:
                rep.bad("R11.2", short, "%s:wrong answer" % var, "%s at a %s position must return %s, it returns %s (inputs: %s)" % (short, var, want, got, ins), config=cfg)
            else:
                rep.ok("R11.2", short, var)
            if any(e.kind in ("value_write", "link_write", "prefix_write") and (e.kind != "value_write" or e["old"] != e["new"]) for e in p.events):
                rep.bad("R11.2", short, "mutates", "%s changes the trie" % short, config=cfg)
    # set / remove at a virtual position must refuse and have no effect; at a node they act on that node
    for short in ("TrieViewMut::set", "TrieViewMut::remove"):
        if short not in F.short:
            rep.bad("R11.2", short, "missing", "%s not found" % short, kind="unrecognised", config=cfg)
            continue
        for p in C.complete(ctx.paths(F, short, OPTS)):
            n += 1
            var, base, idx, pname = position(p)
            got = repr(p.result[1]).replace("?", "")
            writes = [e for e in p.events if e.kind == "value_write"]
            if var == "Virtual":
                want = "Result::Err{value}" if short.endswith("set") else "None"
                if got != want or writes:
                    rep.bad("R11.2", short, "Virtual:acts", "%s at a virtual position must refuse (%s) and change nothing; it returns %s and writes %s"
                            % (short, want, got, [repr(w) for w in writes]), config=cfg)
                else:
                    rep.ok("R11.2", short, "Virtual: refuses")
            elif var == "Node":
                if any(w["node"] != idx for w in writes):
                    rep.bad("R11.2", short, "Node:other-node", "%s writes the value of %s, not of the view's node %s" % (short, [w["node"] for w in writes], idx), config=cfg)
                else:
                    rep.ok("R11.2", short, "Node: own node")
    if only_acc is not None:
        return
    # ---- constructors
    for short, tbl in ROOTS.items():
        if short not in F.short:
            rep.bad("R11.3", short, "missing", "%s not found" % short, kind="unrecognised", config=cfg)
            continue
        for p in C.complete(ctx.paths(F, short, OPTS)):
            n += 1
            loc = c12.find_loc(p.result[1])
            r = repr(p.result[1])
            if loc is None or loc[0] != "Node" or loc[1] != "0" or tbl not in r:
                rep.bad("R11.3", short, "root", "%s must be the view Node(0) on %s; it is %s" % (short, tbl, r[:160]), config=cfg)
            else:
                rep.ok("R11.3", short, "Node(0)")
    # identity conversions and Clone of a view keep table and position
    for short, want in (("<TrieView as AsView>::view", "TrieView{table: self.table, loc: self.loc}"),
                        ("<TrieViewMut as AsViewMut>::view_mut", "TrieViewMut{table: self.table, loc: self.loc, marker: self.marker}")):
        if short in F.short:
            for p in C.complete(ctx.paths(F, short, OPTS)):
                n += 1
                got = repr(p.result[1]).replace("?", "")
                if got != want:
                    rep.bad("R11.3", short, "not-identity", "%s must hand back the view itself; it returns %s" % (short, got[:160]), config=cfg)
                else:
                    rep.ok("R11.3", short, "identity")
        else:
            rep.bad("R11.3", short, "missing", "%s not found" % short, kind="unrecognised", config=cfg)
    short = "<TrieView as Clone>::clone"
    if short in F.short:
        for p in C.complete(ctx.paths(F, short, OPTS)):
            n += 1
            var, base, idx, pname = position(p)
            loc = c12.find_loc(p.result[1])
            r = repr(p.result[1]).replace("?", "")
            if var is None or loc is None or loc[0] != var or loc[1] != idx or (var == "Virtual" and loc[2] != pname) or "self.table" not in r:
                rep.bad("R11.3", short, "position", "a cloned view at %s %s must be the same position on the same table; it is %s" % (var, idx, r[:200]), config=cfg)
            else:
                rep.ok("R11.3", short, str(var))
    short = "<&TrieViewMut as AsView>::view"
    if short in F.short:
        for p in C.complete(ctx.paths(F, short, OPTS)):
            n += 1
            var, base, idx, pname = position(p)
            loc = c12.find_loc(p.result[1])
            r = repr(p.result[1]).replace("?", "")
            if var is None or loc is None or loc[0] != var or loc[1] != idx or (var == "Virtual" and loc[2] != pname) or "self.table" not in r:
                rep.bad("R11.3", short, "position", "view() of a mutable view at %s %s must be the same position on the same table; it is %s"
                        % (var, idx, r[:200]), config=cfg)
            else:
                rep.ok("R11.3", short, str(var))
    else:
        rep.bad("R11.3", short, "missing", "%s not found" % short, kind="unrecognised", config=cfg)
    rep.floor("view navigation / accessor paths (%s)" % cfg, n, 40)
    # view_at / view_mut_at / find locate q relative to the view (rule R12.1 of C12, shared): needed for "repeated
    # navigation below a virtual node"
    c12.run_config(ctx, rep, cfg, F, funcs={k: (v[0], "R11.3") for k, v in c12.FUNCS.items() if v[0] == "find"}, floor=500)


def finalize(ctx, rep):
    F = ctx.main()
    virt = sum(1 for p in C.complete(ctx.paths(F, "TrieViewMut::split", OPTS)) if position(p)[0] == "Virtual")
    rep.canary("R11.1 explores virtual positions (%d split paths)" % virt, virt >= 2)
