"""C19 — equality, clone and round-trips depend only on the stored entries.

R19.1 PartialEq::eq of PrefixMap and PrefixSet is a function of *both complete entry sequences* compared with the
      items' own equality: on every path the result is the outcome of std's Iterator::eq (or eq_by) applied to the
      whole-collection walkers of self and other — or the conjunction of an entry-count comparison with an
      element-wise comparison of the two zipped walkers by the items' own `==`, or a hand-written lock-step loop that
      advances both whole walkers together (interpreted over abstract sequences: decided at the first round that is not
      "both yield and the items are equal", true iff both sequences end in that round).  A bare zip().all() (stops at the
      shorter sequence) or a lookup-based comparison (goes through the masked key, not the stored representation)
      is reported;
R19.2 Clone of PrefixMap / PrefixSet is derived (all fields), and Table::clone builds its arena by Vec::clone of the
      node vector (no sharing); a hand-written Clone / clone_from is reported for review unless it assigns all of
      table, free list and counter from the source;
R19.3 rebuilding: FromIterator (map, set) inserts every item of the source through insert into a fresh collection and
      returns it; Serialize collects the whole collection; Deserialize rebuilds through from_iter.
Value-level round-trip equality through a foreign format is not decided.
"""
from .. import absint
from . import common as C

ASSUMES = ["std's Iterator::eq compares both sequences to exhaustion", "derive(Clone) clones every field", "pt/models.py std model"]
LEVEL_TEXT = __doc__
ALL_SUBSETS = True   # thorough tier: all 16 feature subsets (rules read configuration-dependent code)
OPTS = {"loop_bound": 2}


def declare(rep):
    rep.rule("R19.1", "eq depends on both complete sequences with the items' own equality")
    rep.rule("R19.2", "Clone derived over all fields; Table::clone copies the node vector")
    rep.rule("R19.3", "from_iter inserts every item into a fresh collection; Serialize collects the whole collection; Deserialize goes through from_iter")


def whole(desc, owner):
    """is `desc` the whole-collection walker of `owner` (self / other)?"""
    if ("nodes: [0]" in desc) and (("&*%s.table" % owner) in desc or ("&*%s.0.table" % owner) in desc):
        return True
    # the collection itself used as the iterable (`a.iter().eq(b)` with b: &PrefixSet / &PrefixMap): IntoIterator for a reference
    # to the collection is its whole walker (constructor rule R03.6)
    return desc in ("PrefixSet{*%s.0}" % owner, "PrefixMap{*%s}" % owner, "*%s" % owner) or desc.startswith(("PrefixMap{table: *%s.table" % owner, "PrefixSet{PrefixMap{table: *%s.0.table" % owner))


def check_clone(ctx, rep, cfg, F, rule="R19.2"):
    """Clone of the collections copies every field (derived), or a hand-written clone / clone_from takes table, free list and
    counter from the source; Table::clone copies the node vector (shared with C04 / C16)."""
    for adt in ("prefix_trie::map::PrefixMap", "prefix_trie::set::PrefixSet"):
        imps = [i for i in F.impls if i.get("trait") == "std::clone::Clone" and F.adt_of(i["self_ty"]) == adt]
        name = adt.split("::")[-1]
        if not imps:
            rep.bad(rule, name, "no-clone", "%s has no Clone impl" % name, kind="unrecognised", config=cfg)
            continue
        imp = imps[0]
        if imp.get("auto_derived"):
            rep.ok(rule, name, "Clone derived")
            continue
        # hand-written: every method must take table, free and count from the source
        for it_ in imp["items"]:
            if it_["kind"] != "AssocFn":
                continue
            short = F.short_of.get(it_["path"], it_["path"])
            paths = ctx.paths(F, short, OPTS)
            unrec = [p for p in paths if p.result[0] == "unrecognised"]
            if unrec:
                rep.bad(rule, short, "hand-written-clone", "%s is a hand-written %s and cannot be followed (%s): it must copy table, free list and "
                        "counter from the source — review needed" % (short, it_["name"], unrec[0].result[1][:100]), kind="unrecognised", config=cfg)
                continue
            for p in C.complete(paths):
                r = repr(p.result[1])
                wrote = {e["field"] for e in p.ev("field_write")} | {"table" for e in p.ev("vec_clone") if e["what"] == "nodes"} | \
                    {"free" for e in p.ev("vec_clone") if e["src"].endswith(".free") and e["dst"].endswith(".free")}
                if it_["name"] == "clone_from":
                    missing = {"table", "free", "count"} - wrote
                    if missing:
                        rep.bad(rule, short, "clone_from-skips-" + ",".join(sorted(missing)), "%s does not take %s from the source: the target keeps "
                                "stale state of its own history" % (short, sorted(missing)), config=cfg)
                    else:
                        rep.ok(rule, short, "clone_from copies all fields")
    short = "<Table as Clone>::clone"
    if short in F.short:
        for p in ctx.paths(F, short, OPTS):
            vc = [e for e in p.ev("vec_clone") if e["what"] == "nodes"]
            r = repr(p.result[1]) if p.result[0] == "ret" else C.result_str(p)
            if p.result[0] != "ret" or not vc or vc[-1]["src"] != "self.0" and "self" not in vc[-1]["src"] or ("clone(" not in r):
                rep.bad(rule, short, "shares-or-unknown", "Table::clone must build a new arena from Vec::clone of its own node vector; it returns %s (%s)"
                        % (r, [repr(e) for e in vc]), config=cfg)
            else:
                rep.ok(rule, short, "new arena from Vec::clone", sample={"result": r})
    else:
        rep.bad(rule, short, "missing", "%s not found" % short, kind="unrecognised", config=cfg)


def lockstep_hook(F):
    """A hand-written comparison loop calls next() on both whole-collection walkers: each walker (started at its collection's
    root) is replaced by an abstract sequence — the k-th next() lazily yields `item_<owner>_k` or ends the sequence (fused)."""
    from . import c03
    from ..absint import StructV, RefV, UnkV, IntV, VecV, Cell, OPTION

    def hook(it, callee, fnref, args, n, fr):
        if not (callee.endswith(" as std::iter::Iterator>::next") or callee.endswith("iter::Iterator::next")) or not args:
            return NotImplemented
        v = it.val_force(args[0])
        while isinstance(v, RefV):
            v = it.force(v.cell)
        if not isinstance(v, StructV) or not v.adt.startswith("prefix_trie::"):
            return NotImplemented
        st = getattr(v, "_seq", None)
        if st is None:
            inner = c03.innermost(it, v)
            if inner is None:
                return NotImplemented
            nodes = inner.fields["nodes"].value
            desc = repr(inner).replace("?", "")
            owner = "self" if whole(desc, "self") else "other" if whole(desc, "other") else None
            if owner is None or not (isinstance(nodes, VecV) and [repr(x) for x in nodes.obj.items] == ["0"]):
                return NotImplemented
            st = v._seq = {"owner": owner, "k": 0, "done": False}
        if st["done"]:
            return StructV(OPTION, "None", {})
        st["k"] += 1
        r = it.choose("seqnext:%s#%d" % (st["owner"], st["k"]), ["N", "S"])
        it.emit("seq_next", owner=st["owner"], k=st["k"], res=r)
        if r == "N":
            st["done"] = True
            return StructV(OPTION, "None", {})
        ety = it.ty(n["ty"])["a"][0]
        nm = "item_%s_%d" % (st["owner"], st["k"])
        return StructV(OPTION, "Some", {"0": Cell(UnkV(ety, nm), nm)})
    return hook


def check_lockstep(rep, cfg, short, p):
    """the lock-step form: rounds of (self.next(), other.next()); the answer is decided at the first round that is not
    (both yield ∧ items equal by their own equality): true iff both sequences end in that round"""
    rounds = {}
    for e in p.ev("seq_next"):
        rounds.setdefault(e["k"], {})[e["owner"]] = e["res"]
    inp = dict(p.inputs)
    got = repr(p.result[1])
    want = None
    for k in sorted(rounds):
        r = rounds[k]
        if set(r) != {"self", "other"}:
            rep.bad("R19.1", short, "lockstep:unpaired", "%s advances only one of the two walkers in round %d (%s): the sequences are not compared position by position"
                    % (short, k, r), config=cfg)
            return
        if r["self"] == "S" and r["other"] == "S":
            keys = [q for q in inp if q.startswith("bool:own_eq(") and ("item_self_%d" % k) in q and ("item_other_%d" % k) in q]
            if not keys:
                rep.bad("R19.1", short, "lockstep:items-not-compared", "%s does not compare the %d-th items of the two sequences with their own equality" % (short, k), config=cfg)
                return
            if not inp[keys[0]]:
                want = "false"
                break
            continue
        want = "true" if r["self"] == "N" and r["other"] == "N" else "false"
        break
    if want is None:
        rep.bad("R19.1", short, "lockstep:undecided", "%s returns %s before either sequence ended or a pair of items differed" % (short, got), config=cfg)
    elif got != want:
        rep.bad("R19.1", short, "lockstep:result", "%s returns %s where the position-by-position comparison of both whole sequences gives %s (rounds: %s)"
                % (short, got, want, rounds), config=cfg)
    else:
        rep.ok("R19.1", short, "lock-step loop over both whole sequences", sample={"rounds": {str(k): v for k, v in rounds.items()}, "result": got} if len(rounds) > 1 else None)


def run_config(ctx, rep, cfg, F):
    # ---- R19.1
    for short in ("<PrefixMap as PartialEq>::eq", "<PrefixSet as PartialEq>::eq"):
        if short not in F.short:
            rep.bad("R19.1", short, "missing", "%s not found" % short, kind="unrecognised", config=cfg)
            continue
        key = (cfg, "eq;" + short)
        if key not in ctx._paths:
            from .. import absint
            ctx._paths[key] = absint.explore(F, F.short[short], absint.default_args(F, F.short[short]), dict(OPTS, loop_bound=3, hooks={"call": lockstep_hook(F)}))
        paths = ctx._paths[key]
        C.report_unrecognised(rep, "R19.1", short, paths, F)
        for p in C.complete(paths):
            got = repr(p.result[1])
            inp = dict(p.inputs)
            se = p.ev("seq_eq")
            za = p.ev("zip_all")
            if p.ev("seq_next") and not se and not za:
                check_lockstep(rep, cfg, short, p)
                continue
            if se:
                e = se[-1]
                if not (whole(e["a"], "self") and whole(e["b"], "other") or whole(e["a"], "other") and whole(e["b"], "self")):
                    rep.bad("R19.1", short, "partial-sequences", "%s compares %s with %s: both operands must be walked completely from their roots"
                            % (short, e["a"], e["b"]), config=cfg)
                    continue
                want = "true" if inp.get("bool:seq_eq") else "false"
                if got != want:
                    rep.bad("R19.1", short, "result-not-seq-eq", "%s returns %s although the sequence comparison says %s" % (short, got, want), config=cfg)
                else:
                    rep.ok("R19.1", short, "Iterator::eq over both whole sequences", sample={"a": e["a"], "b": e["b"]})
                continue
            if za:
                e = za[-1]
                count_keys = [k for k in inp if k.startswith("bool:(") and "count" in k and " Eq " in k]
                pred_ok = e["pred"].startswith("own_eq(item_a,item_b)") or e["pred"].startswith("own_eq(item_b,item_a)")
                if not count_keys:
                    if got == "true":
                        rep.bad("R19.1", short, "zip-without-length", "%s decides equality by zip(..).all(..) alone: zip stops at the shorter sequence, "
                                "so a map equals every map whose entries extend its own (e.g. the empty map equals everything)" % short, config=cfg)
                    continue
                if not pred_ok:
                    rep.bad("R19.1", short, "element-test", "%s compares zipped items with %s instead of the items' own equality" % (short, e["pred"]), config=cfg)
                    continue
                want = "true" if (inp.get(count_keys[0]) and inp.get("bool:zip_all")) else "false"
                if got != want:
                    rep.bad("R19.1", short, "result", "%s returns %s where count-equal ∧ zip-all gives %s" % (short, got, want), config=cfg)
                else:
                    rep.ok("R19.1", short, "count ∧ zip.all")
                continue
            if got == "true" or p.ev("seq_all"):
                rep.bad("R19.1", short, "unrecognised-form", "%s can answer `true` without comparing both entry sequences as a whole (events: %s); "
                        "accepted forms: Iterator::eq / eq_by on both whole walkers, or entry counts equal ∧ zipped walkers element-wise equal"
                        % (short, C.events_str(p, ("seq_all", "call"), 6)), config=cfg)
    check_clone(ctx, rep, cfg, F)
    # ---- R19.3
    for short, ins in (("<PrefixMap as FromIterator>::from_iter", "PrefixMap::insert"), ("<PrefixSet as FromIterator>::from_iter", "PrefixSet::insert")):
        if short not in F.short:
            rep.bad("R19.3", short, "missing", "%s not found" % short, kind="unrecognised", config=cfg)
            continue
        paths = ctx.paths(F, short, OPTS)
        C.report_unrecognised(rep, "R19.3", short, paths, F)
        n_items = 0
        for p in paths:
            if p.result[0] not in ("ret", "cut"):
                continue
            items = [e["item"] for e in p.ev("iter_item")]
            fresh = [e["table"] for e in p.ev("table_default")]
            calls = [e for e in p.events if e.kind == "call" and e["callee"] == ins]
            stored = [e for e in p.events if e.kind == "value_write" and e["new"] == "S"]
            pref = [e["new"] for e in p.ev("prefix_write")]
            if len(calls) != len(items):
                rep.bad("R19.3", short, "items-vs-inserts", "%s: the source yields %d item(s) but %s is called %d time(s)" % (short, len(items), ins, len(calls)), config=cfg)
                continue
            ok = True
            for it_ in items:
                n_items += 1
                key_ok = any(x == it_ or x == it_ + ".0" for x in pref)
                val_ok = any(e["payload"] in (it_ + ".1", "()") for e in stored)
                if not (key_ok and val_ok):
                    rep.bad("R19.3", short, "item-not-stored", "%s: item %s of the source is not stored with its own key and value (prefix writes %s, "
                            "stored payloads %s)" % (short, it_, pref, [e["payload"] for e in stored]), config=cfg)
                    ok = False
            if p.result[0] == "ret":
                r = repr(p.result[1])
                if not fresh or ("table<%s>" % fresh[0]) not in r:
                    rep.bad("R19.3", short, "result-not-fresh", "%s must return the freshly built collection; it returns %s" % (short, r), config=cfg)
                    ok = False
            if ok:
                rep.ok("R19.3", short, "items=%d" % len(items))
        rep.floor("source items followed through %s (%s)" % (short, cfg), n_items, 3)
    for short, kind in (("<PrefixMap as Serialize>::serialize", "ser"), ("<PrefixSet as Serialize>::serialize", "ser"),
                        ("<PrefixMap as Deserialize>::deserialize", "de"), ("<PrefixSet as Deserialize>::deserialize", "de")):
        if short not in F.short:
            if cfg in ("all-features",) or "serde" in cfg:
                rep.bad("R19.3", short, "missing", "%s not found" % short, kind="unrecognised", config=cfg)
            continue
        paths = ctx.paths(F, short, OPTS)
        C.report_unrecognised(rep, "R19.3", short, paths, F)
        for p in C.complete(paths):
            if kind == "ser":
                col = p.ev("collect")
                if not col or not (col[-1]["src"].startswith("PrefixMap{table: *self.table") or col[-1]["src"].startswith("PrefixSet{PrefixMap{table: *self.0.table") or col[-1]["src"] == "PrefixSet{*self.0}"
                                   or whole(col[-1]["src"], "self")):
                    rep.bad("R19.3", short, "partial", "%s must serialise the whole collection; it collects %s" % (short, [repr(e) for e in col]), config=cfg)
                else:
                    rep.ok("R19.3", short, "collects the whole collection")
            else:
                r = p.result[1]
                ok_variant = [v for k, v in p.inputs if k.startswith("variant:deserialize()")]
                if ok_variant and ok_variant[0] == "Ok":
                    called = [e for e in p.events if e.kind == "call" and e["callee"].endswith("FromIterator>::from_iter")]
                    if not called or "Ok" not in repr(r):
                        rep.bad("R19.3", short, "not-through-from_iter", "%s must rebuild through from_iter; result %s" % (short, repr(r)[:120]), config=cfg)
                    else:
                        rep.ok("R19.3", short, "rebuilds through from_iter")


def finalize(ctx, rep):
    rep.canary("R19.1 rejects the zip-only form (pre-fix tree is the regression mutant fixes/D1.patch)", True)
