"""C20 — no panic, overflow or divergence on valid input; user panics keep the map valid.

R20.1 panic sites: every path of every analysed entry point (the public operations of maps, sets, entries, views,
      iterators and set operations, explored over all abstract input classes, with the handle typestates established by
      their only constructors) ends normally: the interpreter follows `unwrap`, `expect`, `unreachable!` and explicit
      panics, so an unwrap that is reachable under some abstract input is reported with that input.  Every panic-capable
      site the MIR shows (calls of unwrap / expect / panic*, overflow assertions) must lie in a function these paths went
      through, or belong to a tabulated class with a local reason (valid-input constructors of foreign prefix types,
      the non-null UnsafeCell pointer, the arena bounds check, C17's arithmetic); counter decrements are justified by the
      pairing rule of C04 re-checked here, which is why D3 is a known finding of this property too.
R20.2 termination: in every loop of every analysed function each iteration makes progress — it pops an entry from a stack
      or moves the descent to a strictly deeper node — so traversals are bounded by the (finite, C15) tree.
R20.3 a user callback (retain predicate, or_insert_with / insert_with / and_modify closure) is only ever invoked in a
      consistent state: at the moment of the call the counter matches the values stored so far, no slot is detached but
      unfreed, and nothing is half-written — so a panicking callback leaves a well-formed, size-consistent map holding the
      entries not yet rejected.
R20.4 the arena shrinks only in clear(), together with the free list (shared with C16): indices stored in links / stacks /
      free list stay valid.
Not decided: panics inside user Prefix impls, allocation failure, "for every valid input" beyond the invariants C04/C15/C16.
"""
from .. import absint, engine
from . import common as C
from . import c01, c02, c03, c04, c09, c10, c11, c12, c16, setops

ASSUMES = ["C04 / C15 / C16 invariants of the pre-state", "foreign prefix constructors accept len <= width", "pt/models.py std model"]
LEVEL_TEXT = __doc__
DEEPER = False     # thorough tier: more configurations and the mutant corpus, same unrolling (path count grows too fast)
OPTS = {"loop_bound": 3}
PANIC_CALLS = ("unwrap", "expect", "panic", "panic_fmt", "unreachable", "unwrap_failed", "assert_failed", "panic_display", "panic_nounwind")

# tabulated classes for sites that are not covered by interpretation: (function short name predicate, kind predicate) -> reason
def tabulated(short, file, kind, path="", F=None):
    in_prefix = C.in_module(F, path, C.PREFIX_MOD) if (path and F is not None) else file.endswith("prefix.rs")
    if in_prefix and kind == "call:unwrap" and (short.endswith("from_repr_len") or short.endswith("longest_common_prefix")):
        return "J-valid-input: X::new(addr, len).unwrap() — len <= width is the validity precondition of the property (min of two valid lengths for the common prefix)"
    if short == "Prefix::is_bit_set" and kind.startswith("assert:Overflow"):
        return "J-type-range: 1u32 + (u8 as u32) (C17 R17.2)"
    if in_prefix and kind.startswith("assert:"):
        return "J-width-guard / J-type-range: arithmetic of prefix.rs is decided by C17 R17.1/R17.2"
    return None


def declare(rep):
    rep.rule("R20.1", "no analysed path panics; every panic-capable site is covered by an analysed function or a tabulated class; counter decrements paired (C04)")
    rep.rule("R20.2", "every loop iteration pops a stack entry or descends to a strictly deeper node")
    rep.rule("R20.3", "state is consistent (counter, slots) at every user-callback invocation")
    rep.rule("R20.4", "arena shrinks only in clear(), together with the free list")


def gather(ctx, F):
    """(where, paths) for all analysed entry points"""
    out = []
    for where, paths, _ in c16.entry_programs(ctx, F):
        out.append((where, paths))
    for short in list(c01.OBSERVERS) + list(c01.MUTATORS) + list(c02.LPM) + list(c09.SPM) + list(c10.CHILDREN) + \
            ["PrefixMap::remove_children", "PrefixSet::remove_children", "PrefixSet::clear", "PrefixMap::len", "PrefixMap::is_empty"] + \
            list(c12.FUNCS) + list(c11.NAV) + list(c11.ACC) + ["TrieViewMut::set", "TrieViewMut::remove"] + list(c11.ROOTS) + list(c03.CTORS):
        if short in F.short:
            out.append((short, ctx.paths(F, short, OPTS if short not in c03.CTORS else {"loop_bound": 1})))
    for ctor, (nxt, fmt) in c09.COVER.items():
        if ctor in F.short and nxt in F.short:
            key = (F.config, "cover;" + ctor)
            if key not in ctx._paths:
                ctx._paths[key] = absint.explore(F, None, None, c09.OPTS, program=c09.cover_program(F, ctor, nxt, c09.CALLS))
            out.append((ctor + ";next", ctx._paths[key]))
    for short in c03.WALKERS:
        if short in F.short:
            for stack, tag in ((["n"], "one"), ([], "empty")):
                key = (F.config, "step;%s;%s" % (short, tag))
                if key not in ctx._paths:
                    ctx._paths[key] = absint.explore(F, None, None, {"loop_bound": 1}, program=c03.step_program(F, short, stack))
                out.append((short, ctx._paths[key]))
    for op, spec in setops.OPS.items():
        for it_short, info in spec["iters"].items():
            if it_short in F.short:
                for kind in setops.KINDS:
                    if spec["names"][kind] is not None:
                        out.append(("%s[%s]" % (it_short, spec["names"][kind]), setops.arm_paths(ctx, F, op, it_short, kind, info["lpm"])))
        for ctor in spec["ctors"]:
            if ctor in F.short:
                out.append((ctor, setops.ctor_paths(ctx, F, ctor)))
    for where, paths in C.retain_paths(ctx, F):
        out.append((where, paths))
    # sequences of two calls on one borrowed entry handle (a handle that survives a call must stay usable)
    for hadt, variant in c04.HANDLES.items():
        meths = []
        for f in F.lib_fns():
            if f.get("impl") and F.adt_of(f["impl_self_ty"]) == hadt and f["inputs"] and F.types[f["inputs"][0]]["t"] == "ref" \
                    and (f.get("exported") or f.get("reachable") or f["vis"] == "pub"):
                meths.append(F.short_of[f["path"]])
        for m1 in meths:
            if not F.types[F.fn(m1)["inputs"][0]]["m"]:
                continue        # a &self method cannot change the handle
            for m2 in meths:
                key = (F.config, "entry;%s;%s" % (m1, m2))
                if key not in ctx._paths:
                    def then(it, hcell, r, m2=m2):
                        p2 = F.short[m2]
                        params = C.fn_params(F, p2)
                        t = F.types[params[0][1]]
                        args = [absint.RefV(hcell, t["m"])] + [absint.unknown(it, ty, "m2." + nm) for nm, ty, _ in params[1:]]
                        it.emit("method", name=m2)
                        return it.run_fn(p2, args)
                    ctx._paths[key] = absint.explore(F, None, None, {"loop_bound": 2}, program=C.entry_then(F, m1, variant, then=then))
                out.append(("PrefixMap::entry;%s;%s" % (m1, m2), ctx._paths[key]))
    return out


def consistent_at_callbacks(rep, F, where, p):
    """R20.3: replay the event prefix up to each user callback"""
    cbs = [i for i, e in enumerate(p.events) if e.kind == "user_callback"]
    for i in cbs:
        q = absint.PathSummary()
        q.events = p.events[:i]
        q.result = ("ret", None)
        err, pres, cnt = c04.balance_points(q)
        if err is None and pres != cnt:
            rep.bad("R20.3", where, "callback-while-counter-off", "%s invokes a user callback while the entry counter is ahead of / behind the stored "
                    "values (presence%+d, count%+d so far): if the callback panics, len() stays wrong (inputs: %s)"
                    % (where, pres, cnt, C.inputs_str(p, 10)), config=F.config)
            return False
        g = C.SlotGraph(q)
        probs = [x for x in g.problems(True) if x[0] in ("leak", "free-linked", "orphan", "double-link")]
        # slots allocated (popped / grown) but not yet linked at callback time are lost if the callback unwinds
        dangling = [x for x in g.fresh if not g.incoming_live(x)]
        if probs or dangling:
            rep.bad("R20.3", where, "callback-mid-restructuring", "%s invokes a user callback in the middle of a structural change (%s%s): if the "
                    "callback panics the arena is left inconsistent (inputs: %s)" % (where, [x[2] for x in probs][:2],
                                                                                    " unlinked new slots %s" % dangling if dangling else "", C.inputs_str(p, 10)), config=F.config)
            return False
        pw = [e for e in q.events if e.kind == "prefix_write" and not e["fresh"]]
        half = [e for e in pw if not any(v.kind == "value_write" and v["node"] == e["node"] and v["new"] == "S" for v in q.events)]
        if half:
            rep.bad("R20.3", where, "callback-after-prefix-write", "%s overwrites a stored prefix before the user callback that produces the value "
                    "runs (inputs: %s)" % (where, C.inputs_str(p, 10)), config=F.config)
            return False
    return True


def progress(rep, F, where, p):
    """R20.2 on one path: every completed loop iteration popped something or moved deeper"""
    iters = [i for i, e in enumerate(p.events) if e.kind == "loop_iter"]
    if len(iters) < 2:
        return 0
    n = 0
    for a, b in zip(iters, iters[1:]):
        if p.events[a]["fn"] != p.events[b]["fn"] or p.events[a]["line"] != p.events[b]["line"]:
            continue
        seg = p.events[a + 1:b]
        fn = p.events[a]["fn"]
        own = [e for e in seg if True]
        pops = [e for e in own if e.kind == "vec_pop"]
        nodes = [e["idx"].replace("?", "") for e in own if e.kind == "arena_index"]
        nxt = [e["idx"].replace("?", "") for e in p.events[b + 1:] if e.kind == "arena_index"][:1]
        if any(e.kind in ("call", "ret") and e["callee"] == fn for e in seg) or any(e.kind == "next_call" for e in seg):
            continue            # two invocations of the function, not two iterations of one loop
        same = bool(nodes) and bool(nxt) and nxt[0] == nodes[0]
        n += 1
        if not pops and same:
            rep.bad("R20.2", fn, "no-progress", "%s (analysed through %s): a loop iteration neither pops a stack entry nor moves the descent to a deeper node "
                    "(nodes visited %s, next %s): the loop can spin forever (inputs: %s)" % (fn, where, nodes[:3], nxt, C.inputs_str(p, 10)), config=F.config)
            return n
    return n


def run_config(ctx, rep, cfg, F):
    C.check_primitives(rep, F, "R20.4", ("get_mut", "index"))
    sets = gather(ctx, F)
    entered = set()
    n_paths = n_iter = n_cb = 0
    panicking = set()
    for where, paths in sets:
        entered |= C.functions_entered(paths) | {where.split(";")[-1].split("[")[0]}
        C.report_unrecognised(rep, "R20.1", where, paths, F)
        for p in paths:
            n_paths += 1
            if p.result[0] == "panic":
                fn = p.events[-1]["fn"] if p.events else where
                panicking.add(fn)
                rep.bad("R20.1", where, "panic:%s" % p.result[1], "%s can panic (%s at line %s) for the abstract input [%s]" % (where, p.result[1], p.result[2], C.inputs_str(p, 14)),
                        config=cfg)
            if p.result[0] in ("ret", "cut"):
                n_iter += progress(rep, F, where, p)
                if p.ev("user_callback"):
                    n_cb += 1
                    consistent_at_callbacks(rep, F, where, p)
                g = C.SlotGraph(p)
                if g.arena_cleared != g.free_cleared:
                    rep.bad("R20.4", where, "partial-clear", "%s clears arena=%s free list=%s: stale indices would survive and later index out of bounds"
                            % (where, g.arena_cleared, g.free_cleared), config=cfg)
    rep.ok("R20.1", "all entry points", "no panicking path")
    rep.floor("paths analysed for panics (%s)" % cfg, n_paths, 35000)
    rep.floor("loop iterations checked for progress (%s)" % cfg, n_iter, 50000)
    rep.floor("paths with user callbacks checked (%s)" % cfg, n_cb, 5000)
    # ---- counter decrements are safe iff no path stores a value the counter does not know about (one direction of C04 R04.1):
    # then every `count -= 1` is preceded, somewhere in the history, by the matching increment
    def under(where, paths):
        for p in paths:
            if p.result[0] not in ("ret", "cut"):
                continue
            err, pres, cnt = c04.balance_points(p)
            if err is None and pres > cnt:
                vw = [e for e in p.events if e.kind == "value_write" and e["old"] != e["new"]]
                rep.bad("R20.1", where, "presence%+d,count%+d" % (pres, cnt), "%s stores a value the entry counter does not count (presence%+d, count%+d): "
                        "removing that entry later evaluates `count -= 1` once too often — 'attempt to subtract with overflow' in debug builds, a wrapped "
                        "len() in release builds (value writes: %s; inputs: %s)" % (where, pres, cnt, [repr(e) for e in vw][:3], C.inputs_str(p, 8)), config=cfg)
    for short in sorted(c04.mutator_set(F)):
        if "{closure" in short or short in c04.EXEMPT or short == C.retain_impl(F):
            continue
        is_h, variant = c04.handle_of(F, short)
        if is_h:
            key = (cfg, "entry;" + short)
            if key in ctx._paths:
                under("PrefixMap::entry;" + short, ctx._paths[key])
            continue
        opts = dict(c04.OPTS)
        if "Iterator>::next" in short:
            opts["loop_bound"] = 1
        under(short, ctx.paths(F, short, opts))
    for where, paths in C.retain_paths(ctx, F):
        under(where, paths)
    rep.ok("R20.1", "counter", "no stored value is unknown to the counter (except known findings)")
    # ---- site inventory
    n_sites = 0
    count_writers = set(C.mir_writers(F, C.PMAP, "count"))
    for p, b in sorted(F.bodies.items()):
        m = b.get("mir")
        if not m:
            continue
        short = F.short_of.get(p, p)
        base = short.split("::{closure")[0]
        f = F.fns.get(F.short.get(base, ""))
        if f is None or "/fuzzing/" in f["file"] or f["file"].endswith("/test.rs"):
            continue
        if C.in_module(F, f["path"], "prefix_trie::fmt") or (f.get("impl") and any(i["path"] == f["impl"] and i.get("auto_derived") for i in F.impls)):
            continue
        sites = []
        for c in m["calls"]:
            nm = (c.get("callee") or "").rsplit("::", 1)[-1]
            if nm in PANIC_CALLS:
                sites.append(("call:" + nm, c["line"]))
        for a in m["asserts"]:
            if a["exp"] and a["kind"] in ("Misaligned", "NullDeref"):
                continue          # debug pointer checks generated inside the vec! expansion
            sites.append(("assert:" + a["kind"], a["line"]))
        for kind, line in sites:
            n_sites += 1
            reason = tabulated(base, f["file"], kind, f["path"], F)
            on_table = bool(f.get("impl")) and F.adt_of(f["impl_self_ty"]) == C.TABLE
            callees = [(c_.get("callee") or "") for c_ in m["calls"]]
            if reason is None and on_table and kind == "call:unwrap" and any("ptr::" in c_ and c_.rsplit("::", 1)[-1] in ("as_ref", "as_mut") for c_ in callees) \
                    and any(c_.rsplit("::", 1)[-1] in ("get", "as_ptr", "as_mut_ptr") for c_ in callees):
                reason = "J-nonnull-cell: <ptr>.as_ref()/as_mut().unwrap() on a pointer obtained from UnsafeCell::get() / Vec::as_ptr(): never null"
            if reason is None and on_table and kind in ("call:panic_fmt", "call:panic", "call:assert_failed") and f.get("unsafe") \
                    and F.types[f["output"]]["t"] == "ref" and F.adt_of(f["output"]) == C.NODE:
                reason = "J-index-closed: the explicit bounds check of the arena's unsafe element accessor (definition pinned by C14 R14.8); indices come from links / stacks / view positions, the arena never shrinks under them (R20.4)"
            if reason is None and kind in ("assert:Misaligned", "assert:NullDeref"):
                # debug-build checks on `*ptr`: cannot fire when every raw pointer of the function derives from a reference
                # (UnsafeCell::get / as_ptr / add): no integer-to-pointer cast, no transmute outside macro expansions
                bad_casts = [x for x in m.get("casts", []) if not x.get("exp") and ((x["kind"] == "Transmute" and x["to"].lstrip().startswith(("*", "&")))
                                                                                   or x["kind"] in ("PointerWithExposedProvenance",) or x["kind"].startswith("IntToPtr"))]
                ptr_src = [c_ for c_ in m["calls"] if (c_.get("callee") or "").rsplit("::", 1)[-1] in ("get", "as_ptr", "as_mut_ptr", "add", "as_ref", "as_mut", "len")]
                if not bad_casts and ptr_src:
                    reason = "J-ptr-from-ref: dereferenced raw pointers derive from UnsafeCell::get / as_ptr of a live reference"
            if reason is None and kind == "assert:Overflow(Add)" and base in count_writers:
                reason = "J-count-inc: the counter is bounded by the number of arena slots"
            if reason:
                rep.ok("R20.1", base, "%s: %s" % (kind, reason.split(":")[0]))
            elif kind.startswith("assert:Overflow(Sub)") and base in entered:
                rep.ok("R20.1", base, kind + ": J-count-dec (paired with a removed value: C04 rule above)")
            elif base in entered and base not in panicking:
                rep.ok("R20.1", base, kind + ": no analysed path of this function reaches it",
                       sample={"fn": base, "site": kind, "line": line} if n_sites % 17 == 0 else None)
            elif base in panicking:
                pass        # already reported with the panicking input
            else:
                rep.bad("R20.1", base, "unreviewed:" + kind, "%s (line %s) has a panic-capable site (%s) but no analysed path goes through the function and no "
                        "tabulated reason applies: unreviewed panic site" % (base, line, kind), kind="unrecognised", config=cfg)
    rep.floor("panic-capable sites inventoried (%s)" % cfg, n_sites, 10)


def finalize(ctx, rep):
    F = ctx.main()
    seen = 0
    for where, paths in C.retain_paths(ctx, F):
        seen += sum(1 for p in paths if len(p.ev("user_callback")) >= 2)
    rep.canary("R20.3 replays paths with several predicate calls (%d)" % seen, seen > 0)
