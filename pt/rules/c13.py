"""C13 — mutable traversals mirror the read-only ones and writes land exactly there.

Each mutable traversal is held against the *same* specification as its read-only twin (so the two agree on prefixes,
order, selection and presence pattern on every abstract input class), with `&mut` in the value position:
R13.1 set operations: every arm and constructor of UnionMut, IntersectionMut, DifferenceMut, CoveringDifferenceMut
      (specification of C05–C07);
R13.2 stack walkers and accessors: IterMut / ValuesMut steps and their constructors (C03), get_mut (C01), get_lpm_mut
      (C02), children_mut (C10), TrieViewMut::{value_mut, prefix_value_mut} (C11) — the `&mut T` handed out is the value
      slot of exactly the node whose prefix is reported;
R13.3 none of these functions changes value presence, a stored prefix, a link, the free list or the arena: a write
      through a yielded reference can only change that entry's value.
"Visible to every later read" is the fact that the reference points into the node itself (R13.2); the schedule of
reads and writes is not modelled.
"""
from .. import engine
from . import common as C
from . import c01, c02, c03, c10, c11, setop_prop as S, setops

ASSUMES = S.ASSUMES
LEVEL_TEXT = __doc__
DEEPER = False     # thorough tier: more configurations and the mutant corpus, same unrolling (path count grows too fast)
RULES = {"push": "R13.1", "emit": "R13.1", "ctor": "R13.1", "partition": "R13.1"}


def declare(rep):
    rep.rule("R13.1", "arms / constructors of the four *_mut set operations follow the read-only specification")
    rep.rule("R13.2", "IterMut, ValuesMut, get_mut, get_lpm_mut, children_mut, value_mut, prefix_value_mut follow their read-only twin's rule")
    rep.rule("R13.3", "no structural effect and no presence change in any mutable traversal / accessor")


MUT_FUNCS = ["PrefixMap::get_mut", "PrefixMap::get_lpm_mut", "PrefixMap::children_mut", "PrefixMap::iter_mut", "PrefixMap::values_mut",
             "TrieViewMut::iter_mut", "TrieViewMut::values_mut", "TrieViewMut::value_mut", "TrieViewMut::prefix_value_mut",
             "<TrieViewMut as IntoIterator>::into_iter", "TrieViewMut::node_mut"]


def run_config(ctx, rep, cfg, F):
    S.run_ops(ctx, rep, cfg, F, ["union", "intersection", "difference", "covering"], RULES, "struct", 1100, only_mut=True)
    r2 = engine.Renamed(rep, lambda r: "R13.2" if r not in ("floor",) else r)
    c03.run_config(ctx, r2, cfg, F,
                   walkers={k: v for k, v in c03.WALKERS.items() if "Mut" in k},
                   ctors={k: v for k, v in c03.CTORS.items() if "mut" in k.lower()}, extras=False, floor=20)
    c02.run_config(ctx, r2, cfg, F, funcs={"PrefixMap::get_lpm_mut": c02.LPM["PrefixMap::get_lpm_mut"]}, floor=200)
    c11.run_config(ctx, r2, cfg, F, only_acc={k: v for k, v in c11.ACC.items() if k.endswith("_mut")})
    # get_mut through the observer rule of C01
    short = "PrefixMap::get_mut"
    if short in F.short:
        q = c01.query_name(F, F.short[short])
        for p in C.complete(ctx.paths(F, short, c01.OPTS)):
            T = c01.table_of(p)
            c01.check_observer(r2, F, "R13.2", short, p, C.Walk(p, T, "0", q), *c01.OBSERVERS[short], T)
    else:
        rep.bad("R13.2", short, "missing", "%s not found" % short, kind="unrecognised", config=cfg)
    # ---- R13.3 over everything explored above plus the remaining mutable accessors
    n = 0
    sets = []
    for key, paths in list(ctx._paths.items()):
        if key[0] == cfg:
            sets.append((key[1], paths))
    for short in MUT_FUNCS:
        if short in F.short:
            sets.append((short, ctx.paths(F, short, {"loop_bound": 2})))
    for where, paths in sets:
        name = where if isinstance(where, str) else str(where)
        if not ("mut" in name.lower() or "Mut" in name):
            continue
        if name in ("TrieViewMut::set", "TrieViewMut::remove"):
            continue     # value insertion / removal through a view is not a traversal (C04 / C11 / C18 speak about it)
        for p in paths:
            if p.result[0] not in ("ret", "cut"):
                continue
            n += 1
            for e in p.events:
                bad = (e.kind == "value_write" and e["old"] != e["new"]) or e.kind in ("link_write", "prefix_write", "arena_push", "arena_clear", "count") \
                    or (e.kind in ("vec_push", "vec_pop", "vec_clear") and e["vec"].endswith(".free"))
                if bad:
                    rep.bad("R13.3", name.split(";")[-2] if name.startswith("arm;") else name, e.kind,
                            "%s is a mutable traversal / accessor but performs %s" % (name, e), config=cfg)
                    break
    rep.ok("R13.3", "mutable traversals", "no structural effect")
    rep.floor("mutable-traversal paths checked for side effects (%s)" % cfg, n, 1500)


def finalize(ctx, rep):
    S.swap_canary(ctx, rep, "union", RULES)
