"""C01 — contents match an abstract map: exact-match observers and mutators, per step.

For every path of every exact-match observer and mutator the rule re-derives, from the facts the path
itself examined (relations of the query to the node prefixes, branch sides, links, value presence), a
*certificate walk* through the pre-state trie: the exact node of the query, or a certified absence
(the link on the query's side is absent, or leads to a node that does not cover the query).  Then:
R01.2 observers return the tabulated projection of the exact node iff it holds a value, the constant
      absent answer iff absence is certified, and never answer without a certificate;
R01.3 insert / every Entry-API insertion path / remove / remove_keep_tree return what an ordered map
      returns (old value, removed value, resident reference) and change exactly the value of the
      query's node — a new node carrying the query and the given value when the key was absent;
R01.4 PrefixSet methods and the key/value adaptors are checked through the same rule (they are
      interpreted through their delegation);
R01.5 no exported signature leaks &mut Option / Node / Table;
R01.6 no slot leaves the tree while it may still hold a value or valued descendants (entries lost).
The induction over histories is not mechanised; C15 (shape) and C17 (prefix algebra) are assumed.
"""
from .. import absint
from . import common as C
from . import c04, c16

OPTS = {"loop_bound": 3}
ASSUMES = ["C15 well-formed pre-state", "C17 prefix algebra (relation oracle)", "pt/models.py std model"]
LEVEL_TEXT = __doc__

# observer: (present answer, absent answer); {T} table name, {k} node key
OBSERVERS = {
    "PrefixMap::get": ("Some(&{T}[{k}].value.some)", "None"),
    "PrefixMap::get_mut": ("Some(&mut {T}[{k}].value.some)", "None"),
    "PrefixMap::get_key_value": ("Some((&{T}[{k}].prefix, &{T}[{k}].value.some))", "None"),
    "PrefixMap::contains_key": ("true", "false"),
    "PrefixSet::contains": ("true", "false"),
    "PrefixSet::get": ("Some(&{T}[{k}].prefix)", "None"),
}
# mutators: kind, (answer when the key was present, answer when absent); {new} = key of the created node
MUTATORS = {
    "PrefixMap::insert": ("insert", "Some(?{T}[{k}].value.some)", "None", "value"),
    "PrefixSet::insert": ("insert", "false", "true", None),
    "PrefixMap::remove": ("remove", "Some(?{T}[{k}].value.some)", "None", None),
    "PrefixSet::remove": ("remove", "true", "false", None),
    "PrefixMap::remove_keep_tree": ("remove", "Some(?{T}[{k}].value.some)", "None", None),
    "PrefixSet::remove_keep_tree": ("remove", "true", "false", None),
}
# entry API (through PrefixMap::entry): kind, present answer, absent answer, payload stored when absent
ENTRY = {
    "Entry::insert": (None, "insert", "Some(?{T}[{k}].value.some)", "None", "m.value"),
    "Entry::or_insert": (None, "keep", "&mut {T}[{k}].value.some", "&mut {T}[{new}].value.some", "m.value"),
    "Entry::or_insert_with": (None, "keep", "&mut {T}[{k}].value.some", "&mut {T}[{new}].value.some", "cb"),
    "Entry::or_default": (None, "keep", "&mut {T}[{k}].value.some", "&mut {T}[{new}].value.some", "default()"),
    "Entry::get": (None, "observe", "Some(&{T}[{k}].value.some)", "None", None),
    "Entry::get_mut": (None, "observe", "Some(&mut {T}[{k}].value.some)", "None", None),
    "VacantEntry::insert": ("Vacant", "keep", None, "&mut {T}[{new}].value.some", "m.value"),
    "VacantEntry::insert_with": ("Vacant", "keep", None, "&mut {T}[{new}].value.some", "cb"),
    "VacantEntry::default": ("Vacant", "keep", None, "&mut {T}[{new}].value.some", "default()"),
    "OccupiedEntry::get": ("Occupied", "observe", "&{T}[{k}].value.some", None, None),
    "OccupiedEntry::get_mut": ("Occupied", "observe", "&mut {T}[{k}].value.some", None, None),
    "OccupiedEntry::insert": ("Occupied", "insert", "?{T}[{k}].value.some", None, "m.value"),
    "OccupiedEntry::remove": ("Occupied", "remove", "?{T}[{k}].value.some", None, None),
}


def declare(rep):
    rep.rule("R01.2", "exact-match observers: tabulated projection of the query's node iff it holds a value; absent answer only with "
                      "a certificate of absence from the facts examined on the path")
    rep.rule("R01.3", "mutators return the ordered-map answer and change exactly the value of the query's node / create one node "
                      "carrying the query and the given value")
    rep.rule("R01.4", "set methods and adaptors: same rule through their delegation")
    rep.rule("R01.5", "no exported signature returns &mut Option<T>, &mut Node, &mut Vec<Node>, &mut Table")
    rep.rule("R01.7", "(shared with C11) TrieViewMut::{value_mut, prefix_value_mut, set, remove} act on the view's own node; they refuse at a virtual position")
    rep.rule("R01.8", "(shared with C16) every structural mutator incl. retain / remove_children / clear preserves the slot partition")
    rep.rule("R01.6", "no slot leaves the tree while it may still hold a value or valued descendants")


def query_name(F, path, pname="prefix"):
    for nm, ty, sk in C.fn_params(F, path):
        if nm == pname:
            return ("*" + nm) if F.types[ty]["t"] == "ref" else nm
    return None


def table_of(p):
    for e in p.events:
        if e.kind == "arena_index":
            return e["table"]
    return None


def value_changes(p, table):
    return [e for e in p.events if e.kind == "value_write" and e["table"] == table and (e["old"] != e["new"] or e["new"] == "S")]


def classify(W):
    """present(k) / valueless(k) / absent / uncertified"""
    if not W.covers:
        return ("uncertified", "the start node is not known to cover the query (relation %s)" % W.start_rel)
    if W.exact is not None:
        v = W.init.get(W.exact, {}).get("value")
        if v == "S":
            return ("present", W.exact)
        if v == "N":
            return ("valueless", W.exact)
        return ("uncertified", "the value of the query's node %s was never examined" % W.exact)
    if not W.certified:
        return ("uncertified", W.why)
    return ("absent", W.end)


def check_observer(rep, F, rule, where, p, W, present_fmt, absent_fmt, T):
    cls = classify(W)
    got = repr(p.result[1])
    if cls[0] == "present":
        want = present_fmt.format(T=T, k=cls[1]) if present_fmt else None
    elif cls[0] in ("valueless", "absent"):
        want = absent_fmt
    else:
        rep.bad(rule, where, "unjustified:" + got.split("(")[0],
                "%s answers %s although %s (inputs: %s)" % (where, got, cls[1], C.inputs_str(p, 12)), config=F.config)
        return None
    if want is None:
        return cls
    if got != want:
        rep.bad(rule, where, "%s:%s" % (cls[0], "wrong answer"),
                "%s: the query's node is %s (%s) so the answer must be %s, but the function returns %s (inputs: %s)"
                % (where, cls[0], cls[1], want, got, C.inputs_str(p, 12)), config=F.config)
    else:
        rep.ok(rule, where, cls[0], sample={"query's node": str(cls[1]), "chain": W.chain, "answer": got, "inputs": C.inputs_str(p, 10)}
               if cls[0] in ("present", "absent") and len(W.chain) >= 2 else None)
    return cls


def check_effects(rep, F, rule, where, p, W, cls, kind, T, q, payload_want):
    """value effects of a mutator on one path"""
    ch = value_changes(p, T)
    g = C.SlotGraph(p)
    fresh_valued = [e for e in ch if e["node"] in g.fresh and e["new"] == "S"]
    other = [e for e in ch if e["node"] not in g.fresh]
    k = cls[1] if cls[0] in ("present", "valueless") else None
    def bad(detail, msg):
        rep.bad(rule, where, detail, "%s: %s (value writes: %s; inputs: %s)" % (where, msg, [repr(e) for e in ch][:5], C.inputs_str(p, 12)),
                config=F.config)
    touched_other = [e for e in other if e["node"] != k and e["old"] != e["new"]]
    if touched_other:
        bad("touches-other-entry", "changes the value presence of node %s, which is not the query's node" % touched_other[0]["node"])
        return
    if kind == "observe":
        if any(e["old"] != e["new"] for e in ch):
            bad("observer-mutates", "an observer changes value presence")
        return
    if kind == "remove":
        if cls[0] == "present":
            if not any(e["node"] == k and e["old"] == "S" and e["new"] == "N" for e in other):
                bad("remove:not-removed", "the key is stored but its value is not taken out")
            else:
                rep.ok(rule, where, "remove:present")
        else:
            if any(e["old"] != e["new"] for e in ch):
                bad("remove:absent-changes", "the key is not stored but a value changes")
            else:
                rep.ok(rule, where, "remove:absent")
        return
    # insert / keep
    if cls[0] == "present":
        wr = [e for e in other if e["node"] == k]
        if kind == "insert":
            if not wr or wr[-1]["new"] != "S" or (payload_want and wr[-1]["payload"] != payload_want):
                bad("insert:present-not-replaced", "the key is stored: its value must be replaced by the given one (%s)" % payload_want)
            else:
                rep.ok(rule, where, "insert:replace")
        else:
            if wr:
                bad("keep:present-overwritten", "the key is stored: the resident value must be kept")
            else:
                rep.ok(rule, where, "keep:resident")
        if fresh_valued:
            bad("present-but-new-node", "the key is stored but a second node is created")
        return
    if cls[0] == "valueless":
        wr = [e for e in other if e["node"] == k]
        if not wr or wr[-1]["new"] != "S" or (payload_want and not payload_ok(wr[-1]["payload"], payload_want)):
            bad("insert:valueless-node-not-filled", "the query's node exists without a value: the value must be stored in it")
        elif fresh_valued:
            bad("valueless-but-new-node", "the query's node exists but a second node is created")
        else:
            rep.ok(rule, where, "insert:fill value-less node")
        return
    # absent: exactly one fresh valued node, carrying the query
    if len(fresh_valued) != 1:
        bad("insert:absent-new-nodes=%d" % len(fresh_valued), "the key is absent: exactly one new node must receive the value")
        return
    e = fresh_valued[0]
    if payload_want and not payload_ok(e["payload"], payload_want):
        bad("insert:wrong-payload", "the new node stores %s instead of the given value %s" % (e["payload"], payload_want))
        return
    pw = [x for x in p.events if x.kind == "prefix_write" and x["node"] == e["node"]]
    if not pw or pw[-1]["new"] != q:
        bad("insert:new-node-prefix", "the new node's prefix is %s, not the inserted key %s" % (pw[-1]["new"] if pw else None, q))
        return
    rep.ok(rule, where, "insert:new node")
    return e["node"]


def payload_ok(got, want):
    if want == "cb":
        return got is not None and got.startswith("cb")
    return got == want


def lost_entries(rep, F, where, p):
    g = C.SlotGraph(p)
    if g.arena_cleared:
        return
    for kind, slot, text in g.problems(True):
        if kind in ("leak", "orphan", "free-linked"):
            st = None
            for t, nodes in p.final.items():
                if slot in nodes:
                    st = nodes[slot]
            v = st.get("value") if st else "?"
            kids = [st.get("left"), st.get("right")] if st else ["?", "?"]
            if kind == "free-linked" or v != "N" or kind == "orphan" or any(x != "N" for x in kids):
                rep.bad("R01.6", where, "%s:%s" % (kind, slot), "%s: %s — value %s, children %s: stored entries may silently disappear "
                        "or garbage becomes reachable (inputs: %s)" % (where, text, v, kids, C.inputs_str(p, 12)), config=F.config)


def run_config(ctx, rep, cfg, F):
    n = 0
    for short, (present_fmt, absent_fmt) in OBSERVERS.items():
        if short not in F.short:
            rep.bad("R01.2", short, "missing", "observer %s not found" % short, kind="unrecognised", config=cfg)
            continue
        paths = ctx.paths(F, short, OPTS)
        C.report_unrecognised(rep, "R01.2", short, paths, F)
        q = query_name(F, F.short[short])
        for p in C.complete(paths):
            T = table_of(p)
            W = C.Walk(p, T, "0", q)
            cls = check_observer(rep, F, "R01.2" if short.startswith("PrefixMap") else "R01.4", short, p, W, present_fmt, absent_fmt, T)
            if cls:
                check_effects(rep, F, "R01.2", short, p, W, cls, "observe", T, q, None)
            n += 1
        for p in paths:
            if p.result[0] == "panic":
                rep.bad("R01.2", short, "panics", "%s can panic: %s" % (short, C.result_str(p)), config=cfg)
    for short, (kind, present_fmt, absent_fmt, payload) in MUTATORS.items():
        if short not in F.short:
            rep.bad("R01.3", short, "missing", "mutator %s not found" % short, kind="unrecognised", config=cfg)
            continue
        paths = ctx.paths(F, short, OPTS)
        C.report_unrecognised(rep, "R01.3", short, paths, F)
        q = query_name(F, F.short[short])
        rule = "R01.3" if short.startswith("PrefixMap") else "R01.4"
        for p in C.complete(paths):
            T = table_of(p)
            W = C.Walk(p, T, "0", q)
            cls = classify(W)
            if cls[0] == "uncertified":
                rep.bad(rule, short, "unjustified", "%s acts although %s (inputs: %s)" % (short, cls[1], C.inputs_str(p, 12)), config=cfg)
                continue
            k = cls[1] if cls[0] in ("present", "valueless") else None
            want = present_fmt.format(T=T, k=k) if cls[0] == "present" else absent_fmt
            got = repr(p.result[1]).replace("?", "")
            want = want.replace("?", "")
            if got != want:
                rep.bad(rule, short, "%s:wrong answer" % cls[0], "%s: the key is %s, an ordered map returns %s, the function returns %s "
                        "(inputs: %s)" % (short, cls[0], want, got, C.inputs_str(p, 12)), config=cfg)
            else:
                rep.ok(rule, short, "answer:" + cls[0])
            check_effects(rep, F, rule, short, p, W, cls, kind, T, q, payload)
            lost_entries(rep, F, short, p)
            n += 1
    # Entry API through its only constructor
    for short, (variant, kind, present_fmt, absent_fmt, payload) in ENTRY.items():
        if short not in F.short:
            rep.bad("R01.3", short, "missing", "entry method %s not found" % short, kind="unrecognised", config=cfg)
            continue
        key = (cfg, "entry;" + short)
        if key not in ctx._paths:
            params = C.fn_params(F, F.short[short])
            borrows = F.types[params[0][1]]["t"] == "ref"
            prog = C.entry_then(F, short, variant, then=c04.typestate_then if borrows else None)
            ctx._paths[key] = absint.explore(F, None, None, dict(OPTS, loop_bound=2), program=prog)
        paths = ctx._paths[key]
        where = "PrefixMap::entry;" + short
        C.report_unrecognised(rep, "R01.3", where, paths, F)
        for p in paths:
            if p.result[0] == "panic":
                rep.bad("R01.3", where, "panics", "%s can panic: %s (inputs: %s)" % (where, C.result_str(p), C.inputs_str(p, 10)), config=cfg)
        for p in C.complete(paths):
            T = table_of(p)
            W = C.Walk(p, T, "0", "prefix")
            cls = classify(W)
            if cls[0] == "uncertified":
                rep.bad("R01.3", where, "unjustified", "%s acts although %s (inputs: %s)" % (where, cls[1], C.inputs_str(p, 12)), config=cfg)
                continue
            newk = check_effects(rep, F, "R01.3", where, p, W, cls, kind, T, "prefix", payload)
            k = cls[1] if cls[0] in ("present", "valueless") else None
            if cls[0] == "present":
                want = present_fmt.format(T=T, k=k) if present_fmt else None
            elif cls[0] == "valueless":
                want = absent_fmt.format(T=T, new=k) if absent_fmt else None
            else:
                want = absent_fmt.format(T=T, new=newk) if absent_fmt and newk else None
            got = repr(p.result[1]).replace("?", "")
            want = want.replace("?", "") if want else want
            if want is not None and got != want:
                rep.bad("R01.3", where, "%s:wrong answer" % cls[0], "%s: the key is %s, the entry API must return %s, it returns %s "
                        "(inputs: %s)" % (where, cls[0], want, got, C.inputs_str(p, 12)), config=cfg)
            elif want is not None:
                rep.ok("R01.3", where, "answer:" + cls[0])
            lost_entries(rep, F, where, p)
            n += 1
    # Entry::and_modify: the closure sees the resident value of an occupied entry exactly once; a vacant entry is handed back untouched
    short = "Entry::and_modify"
    if short in F.short:
        key = (cfg, "entry;" + short)
        if key not in ctx._paths:
            ctx._paths[key] = absint.explore(F, None, None, dict(OPTS, loop_bound=2), program=C.entry_then(F, short, None))
        for p in C.complete(ctx._paths[key]):
            T = table_of(p)
            cls = classify(C.Walk(p, T, "0", "prefix"))
            cbs = [e for e in p.ev("user_callback")]
            got = repr(p.result[1]).replace("?", "")
            if cls[0] == "present":
                want_arg = "&mut %s[%s].value.some" % (T, cls[1])
                if len(cbs) != 1 or cbs[0]["args"] != [want_arg] or not got.startswith("Entry::Occupied"):
                    rep.bad("R01.3", "PrefixMap::entry;" + short, "occupied", "and_modify on a stored key must call the closure once with %s and return the occupied "
                            "entry; callbacks %s, result %s" % (want_arg, [e["args"] for e in cbs], got[:80]), config=cfg)
                else:
                    rep.ok("R01.3", "PrefixMap::entry;" + short, "occupied: closure on the resident value")
            elif cls[0] in ("valueless", "absent"):
                if cbs or not got.startswith("Entry::Vacant"):
                    rep.bad("R01.3", "PrefixMap::entry;" + short, "vacant", "and_modify on an absent key must not call the closure and must return the vacant "
                            "entry; callbacks %s, result %s" % ([e["args"] for e in cbs], got[:80]), config=cfg)
                else:
                    rep.ok("R01.3", "PrefixMap::entry;" + short, "vacant: untouched")
            if any(e.kind in ("value_write", "prefix_write", "link_write") and (e.kind != "value_write" or e["old"] != e["new"]) for e in p.events):
                rep.bad("R01.3", "PrefixMap::entry;" + short, "mutates", "and_modify itself changes the map", config=cfg)
    for where, paths in C.retain_paths(ctx, F):
        for p in C.complete(paths):
            lost_entries(rep, F, where, p)
    for p in C.complete(ctx.paths(F, "PrefixMap::remove_children", OPTS)):
        pass
    rep.floor("certificate walks (%s)" % cfg, n, 1500)
    # writes through mutable views land on the entry the view is positioned at (rule R11.2 of C11, shared)
    from .. import engine
    from . import c11
    c11.run_config(ctx, engine.Renamed(rep, lambda r: "R01.7" if r.startswith("R11") else r), cfg, F,
                   only_acc={k: v for k, v in c11.ACC.items() if k.endswith("_mut")})
    # R01.5
    import re
    leaks = 0
    for f in F.lib_fns():
        if not (f.get("exported") or f.get("reachable")):
            continue
        out = F.types[f["output"]]["s"]
        for badty in ("std::option::Option<", "prefix_trie::inner::Node<", "std::vec::Vec<prefix_trie::inner::Node", "prefix_trie::inner::Table<"):
            if re.search(r"&('\w+ )?mut " + re.escape(badty), out):
                leaks += 1
                rep.bad("R01.5", F.short_of[f["path"]], "returns &mut " + badty, "exported function %s returns %s" % (F.short_of[f["path"]], out), config=cfg)
    if not leaks:
        rep.ok("R01.5", "all exported signatures", "no leaking &mut")
    # ---- R01.8: the induction hypothesis of all rules above — a well-formed arena — is preserved by every structural mutator of
    # the alphabet, including retain / remove_children / clear (the slot-partition rules of C16, shared): a slot freed twice or
    # freed while linked makes a LATER insert overwrite or lose a stored entry
    from .. import engine
    from . import c16
    c16.run_config(ctx, engine.Renamed(rep, lambda r: "R01.8" if r.startswith("R16") else r), cfg, F)


def finalize(ctx, rep):
    F = ctx.main()
    # canary: an observer path whose answer is flipped must be reported
    fired = False
    for p in C.complete(ctx.paths(F, "PrefixMap::contains_key", OPTS)):
        W = C.Walk(p, table_of(p), "0", "*prefix")
        cls = classify(W)
        if cls[0] == "valueless":
            r2 = type(rep)(rep.prop)
            q = absint.PathSummary()
            q.inputs, q.events, q.rels, q.sides, q.final = p.inputs, p.events, p.rels, p.sides, p.final
            q.result = ("ret", absint.BoolV(True))
            check_observer(r2, F, "R01.2", "canary", q, W, "true", "false", table_of(p))
            fired = bool(r2.findings)
            break
    rep.canary("R01.2 fires when contains_key answers true for a value-less node", fired)
