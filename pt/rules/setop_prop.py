"""Common body of the rule modules C05–C08 (and the set-operation parts of C13, C18)."""
import copy

from . import common as C
from . import setops

ASSUMES = ["C15 well-formed operand tries (a child is strictly covered by its parent, on its branch side)",
           "C17 prefix algebra (relation oracle)", "pt/models.py std model",
           "the induction from the per-arm step to the whole traversal is not mechanised"]


def run_ops(ctx, rep, cfg, F, ops, rules, mode, floor, only_mut=None, ctors=True, ctor_mode=None):
    n = 0
    for op in ops:
        n += setops.check_op(ctx, rep, F, op, rules, only_mut=only_mut, mode=mode)
        if mode == "struct":
            from . import common as C
            tys = {k[1:].split(" as ")[0] for k, info in setops.OPS[op]["iters"].items() if only_mut is None or info["mut"] == only_mut}
            C.check_iterator_overrides(rep, F, rules["push"], lambda t: t in tys)
        if not ctors:
            continue
        for ctor, info in setops.OPS[op]["ctors"].items():
            if only_mut is not None and ("_mut" in ctor) != only_mut:
                continue
            if ctor not in F.short:
                rep.bad(rules["ctor"], ctor, "missing", "%s not found" % ctor, kind="unrecognised", config=cfg)
                continue
            if (ctor_mode or mode) == "repr":
                continue
            n += setops.check_ctor(ctx, rep, F, op, ctor, info["lpm"], rules["ctor"], rules.get("seed"), mode=ctor_mode or mode)
    rep.floor("arm / constructor paths compared with the specification (%s)" % cfg, n, floor)
    return n


def swap_canary(ctx, rep, op, rules):
    """a specification-relevant perturbation of a real path (two pushes swapped) must be reported"""
    from .. import engine
    F = ctx.main()
    hit = False
    for it_short, info in setops.OPS[op]["iters"].items():
        for kind in setops.KINDS:
            if setops.OPS[op]["names"][kind] is None:
                continue
            for p in setops.arm_paths(ctx, F, op, it_short, kind, info["lpm"]):
                if p.result[0] not in ("ret", "cut"):
                    continue
                pushes = [e for e in p.events if e.kind == "vec_push" and e["vec"] == "self.nodes"]
                if len(pushes) >= 2 and pushes[0]["item"] != pushes[1]["item"]:
                    q = copy.copy(p)
                    q.events = [e for e in p.events if e not in pushes] + list(reversed(pushes))
                    r2 = engine.Report("canary")
                    setops.check_arm(r2, F, dict(rules, push="x", emit="x"), op, it_short, kind, q, info["mut"], info["lpm"], "struct")
                    hit = bool(r2.findings)
                    break
            if hit:
                break
        if hit:
            break
    rep.canary("arm comparison fires when two pushes of a real path are swapped", hit)
