"""C18 — keys are identified by their network part; the stored representation is the last one inserted.

R18.1 generic trie code never looks at a prefix's raw representation: `Prefix::repr` / `Prefix::from_repr_len` are called
      only from prefix.rs (every other use of a key goes through mask / eq / contains / is_bit_set / prefix_len /
      longest_common_prefix, which ignore host bits), and no trie function other than the PartialEq / Eq / serde / derived
      impls requires P: PartialEq / Eq / Hash / Ord;
R18.2 the stored prefix of an existing node is written exactly by the inserting / replacing calls (insert, Entry::insert,
      OccupiedEntry::insert, vacant-entry insertion into an existing value-less node) — on every such path, with the prefix
      the caller passed — and by no other operation (or_insert* on an occupied entry, and_modify, value accessors,
      remove*, view set / remove, traversals);
R18.3 what is reported is the stored representation of a node that holds the reported value: exact-match observers
      (rule of C01), Entry::key / OccupiedEntry::key / VacantEntry::key, and every set-operation item (the prefix of a side
      that holds a value in this item, never the value-less side's, never the query).
"Most recent call" over a history is the per-step fact R18.2; the history statement itself is not mechanised.
"""
import re

from .. import absint, engine
from . import common as C
from . import c01, c04, setop_prop as S, setops

ASSUMES = ["C17 (mask/eq/contains ignore host bits)", "pt/models.py std model"]
LEVEL_TEXT = __doc__
DEEPER = False     # thorough tier: more configurations and the mutant corpus, same unrolling (path count grows too fast)
RULES = {"repr": "R18.3", "ctor": "R18.3"}
# entry method -> must the stored prefix of an existing node be replaced by the entry's prefix?
REPLACES = {"Entry::insert": True, "OccupiedEntry::insert": True, "VacantEntry::insert": True, "VacantEntry::insert_with": True,
            "VacantEntry::default": True, "Entry::or_insert": False, "Entry::or_insert_with": False, "Entry::or_default": False,
            "Entry::and_modify": False, "Entry::get": False, "Entry::get_mut": False, "Entry::key": False, "OccupiedEntry::get": False,
            "OccupiedEntry::get_mut": False, "OccupiedEntry::remove": False, "OccupiedEntry::key": False, "VacantEntry::key": False}
KEYS = {"Entry::key": None, "OccupiedEntry::key": "Occupied", "VacantEntry::key": "Vacant"}
NEVER = ["PrefixMap::get_mut", "PrefixMap::get_lpm_mut", "PrefixMap::remove_keep_tree", "TrieViewMut::set", "TrieViewMut::remove",
         "TrieViewMut::value_mut", "TrieViewMut::prefix_value_mut"]
BOUND_OK = ("PartialEq", "Eq", "Serialize", "Deserialize", "Clone", "Debug", "Hash", "PartialOrd", "Ord", "Copy", "fmt")


def declare(rep):
    rep.rule("R18.1", "Prefix::repr / from_repr_len only inside prefix.rs; no P: PartialEq/Eq/Hash/Ord outside equality / serde / derived impls")
    rep.rule("R18.2", "stored prefix written exactly by the inserting/replacing calls (always, with the caller's prefix), by nothing else")
    rep.rule("R18.3", "reported prefixes are the stored representation of a node holding the reported value")



def check_new_node(rep, cfg, where, p, T, q, n_new):
    """an insertion that creates the key's node must store the caller's representation in it — also in a recycled slot"""
    fresh = [e["node"] for e in p.events if e.kind == "value_write" and e["old"] == "N" and e["new"] == "S"
             and (e["node"].startswith("pop(") or e["node"].startswith("len("))]
    for k in fresh:
        n_new[0] += 1
        got = (p.final or {}).get(T, {}).get(k, {}).get("prefix")
        if got != q:
            rep.bad("R18.2", where, "new-node-stale-prefix", "%s stores the new entry in the fresh slot %s but that node's prefix is %s, not the "
                    "representation the caller passed (%s): a recycled slot must not keep its previous prefix (inputs: %s)"
                    % (where, k, got, q, C.inputs_str(p, 10)), config=cfg)
        else:
            rep.ok("R18.2", where, "new node holds the caller's prefix", sample={"slot": k, "prefix": got} if k.startswith("pop(") else None)


def run_config(ctx, rep, cfg, F):
    # ---- R18.1
    n_sites = 0
    for p, b in F.bodies.items():
        m = b.get("mir")
        if not m:
            continue
        short = F.short_of.get(p, p)
        f = F.fns.get(p) or F.fns.get(p.split("::{closure")[0])
        file = f["file"] if f else "?"
        for c in m["calls"]:
            callee = c.get("callee") or ""
            if callee in ("prefix_trie::prefix::Prefix::repr", "prefix_trie::prefix::Prefix::from_repr_len"):
                n_sites += 1
                if not C.in_module(F, p, C.PREFIX_MOD):
                    rep.bad("R18.1", short, callee.rsplit("::", 1)[1], "%s (%s) calls %s: trie code must not look at the raw representation "
                            "of a key (host bits) — only mask / eq / contains / is_bit_set / prefix_len / longest_common_prefix"
                            % (short, file, callee), config=cfg)
                else:
                    rep.ok("R18.1", short, callee.rsplit("::", 1)[1] + " inside prefix.rs")
    rep.floor("repr / from_repr_len call sites (%s)" % cfg, n_sites, 1)
    for f in F.lib_fns():
        short = F.short_of[f["path"]]
        if C.in_module(F, f["path"], C.PREFIX_MOD) or C.in_module(F, f["path"], "prefix_trie::serde") or C.in_module(F, f["path"], "prefix_trie::fmt"):
            continue
        for pr in f["preds"]:
            tr = (pr.get("trait") or "").split("::")[-1]
            st = F.types[pr["self"]]["s"] if pr.get("self") is not None else ""
            if st == "P" and tr in ("PartialEq", "Eq", "Hash", "PartialOrd", "Ord"):
                name = f["name"]
                imp_tr = (f.get("impl_trait") or "").split("::")[-1]
                if imp_tr in BOUND_OK or name in BOUND_OK:
                    rep.ok("R18.1", short, "P: %s in an equality / derived impl" % tr)
                else:
                    rep.bad("R18.1", short, "P: " + tr, "%s requires P: %s: keys must be compared through the Prefix trait only "
                            "(their own equality sees host bits)" % (short, tr), config=cfg)
    # ---- R18.2 map-level insert
    n = 0
    n_new = [0]
    for short in ("PrefixMap::insert", "PrefixSet::insert"):
        q = c01.query_name(F, F.short[short])
        for p in C.complete(ctx.paths(F, short, c01.OPTS)):
            T = c01.table_of(p)
            W = C.Walk(p, T, "0", q)
            cls = c01.classify(W)
            if cls[0] == "absent":
                check_new_node(rep, cfg, short, p, T, q.lstrip("*"), n_new)
            if cls[0] in ("present", "valueless"):
                n += 1
                pw = [e for e in p.events if e.kind == "prefix_write" and e["node"] == cls[1]]
                if not pw or pw[-1]["new"] != q:
                    rep.bad("R18.2", short, "prefix-not-replaced", "%s on an existing node %s must store the caller's representation of the key; "
                            "prefix writes: %s (inputs: %s)" % (short, cls[1], [repr(e) for e in pw], C.inputs_str(p, 10)), config=cfg)
                else:
                    rep.ok("R18.2", short, "replaces the stored prefix (%s)" % cls[0],
                           sample={"node": cls[1], "prefix_write": repr(pw[-1]), "inputs": C.inputs_str(p, 8)})
    # entry API
    for short, replaces in REPLACES.items():
        if short not in F.short:
            rep.bad("R18.2", short, "missing", "%s not found" % short, kind="unrecognised", config=cfg)
            continue
        is_h, variant = c04.handle_of(F, short)
        key = (cfg, "entry;" + short)
        if key not in ctx._paths:
            params = C.fn_params(F, F.short[short])
            borrows = F.types[params[0][1]]["t"] == "ref"
            ctx._paths[key] = absint.explore(F, None, None, {"loop_bound": 2}, program=C.entry_then(F, short, variant, then=c04.typestate_then if borrows else None))
        where = "PrefixMap::entry;" + short
        C.report_unrecognised(rep, "R18.2", where, ctx._paths[key], F)
        for p in C.complete(ctx._paths[key]):
            T = c01.table_of(p)
            W = C.Walk(p, T, "0", "prefix")
            cls = c01.classify(W)
            if cls[0] == "absent":
                check_new_node(rep, cfg, where, p, T, "prefix", n_new)
            if cls[0] not in ("present", "valueless"):
                continue
            n += 1
            pw = [e for e in p.events if e.kind == "prefix_write" and e["node"] == cls[1]]
            inserted = any(e.kind == "value_write" and e["node"] == cls[1] and e["old"] == "N" and e["new"] == "S" for e in p.events)
            if replaces or (cls[0] == "valueless" and inserted):     # a vacant-entry insertion into an existing value-less node
                if not pw or pw[-1]["new"] != "prefix":
                    rep.bad("R18.2", where, "prefix-not-replaced", "%s on an existing node %s must store the representation passed to entry(); "
                            "prefix writes: %s (inputs: %s)" % (where, cls[1], [repr(e) for e in pw], C.inputs_str(p, 8)), config=cfg)
                else:
                    rep.ok("R18.2", where, "replaces the stored prefix")
            else:
                if pw:
                    rep.bad("R18.2", where, "prefix-overwritten", "%s must not change the stored representation of %s; it writes %s"
                            % (where, cls[1], [repr(e) for e in pw]), config=cfg)
                else:
                    rep.ok("R18.2", where, "keeps the stored prefix")
            # R18.3 key()
            if short in KEYS:
                got = repr(p.result[1]).replace("?", "")
                want = "&%s[%s].prefix" % (T, cls[1]) if cls[0] == "present" else "&entry.0.prefix"
                if cls[0] == "present" and got != want:
                    rep.bad("R18.3", where, "key", "%s of an occupied entry must be the stored prefix %s, it is %s" % (where, want, got), config=cfg)
                elif cls[0] == "present":
                    rep.ok("R18.3", where, "stored prefix")
    for short in NEVER:
        if short not in F.short:
            rep.bad("R18.2", short, "missing", "%s not found" % short, kind="unrecognised", config=cfg)
            continue
        for p in ctx.paths(F, short, {"loop_bound": 2}):
            n += 1
            pw = p.ev("prefix_write")
            if pw:
                rep.bad("R18.2", short, "prefix-overwritten", "%s is a value-only operation but writes a stored prefix: %s" % (short, [repr(e) for e in pw]), config=cfg)
        rep.ok("R18.2", short, "never writes a prefix")
    # MIR cross-check (coverage, fail closed): every function that assigns Node::prefix was interpreted by a rule above
    writers = C.mir_writers(F, C.NODE, "prefix", hows=("assign",))
    entered = set()
    for key, paths in ctx._paths.items():
        if key[0] == cfg:
            entered |= C.functions_entered(paths)
            if isinstance(key[1], str):
                entered.add(key[1].split(";")[-1])
    for w in writers:
        base = w.split("::{closure")[0]
        if base in entered or base in ("<map::IntoIter as Iterator>::next",):
            rep.ok("R18.2", w, "prefix writer covered by an analysed path")
        else:
            rep.bad("R18.2", w, "uninterpreted-prefix-writer", "MIR shows that %s assigns Node::prefix but no analysed path goes through it" % w,
                    kind="unrecognised", config=cfg)
    rep.floor("functions assigning Node::prefix (%s)" % cfg, len(writers), 1)
    rep.floor("existing-node paths checked for the stored prefix (%s)" % cfg, n, 150)
    rep.floor("new-node insertions checked for the stored prefix (%s)" % cfg, n_new[0], 800)
    # ---- R18.3 observers (rule of C01) and set-operation items
    r2 = engine.Renamed(rep, lambda r: "R18.3" if r.startswith("R01") else r)
    for short in ("PrefixMap::get_key_value", "PrefixSet::get"):
        q = c01.query_name(F, F.short[short])
        for p in C.complete(ctx.paths(F, short, c01.OPTS)):
            T = c01.table_of(p)
            c01.check_observer(r2, F, "R18.3", short, p, C.Walk(p, T, "0", q), *c01.OBSERVERS[short], T)
    S.run_ops(ctx, rep, cfg, F, ["union", "intersection", "difference", "covering"], RULES, "repr", 4000, ctors=False)


def finalize(ctx, rep):
    F = ctx.main()
    # canary: there are Both-arm union paths on which only the right node holds a value (where D8 lived)
    seen = 0
    for it_short, info in setops.OPS["union"]["iters"].items():
        for p in setops.arm_paths(ctx, F, "union", it_short, "both", info["lpm"]):
            o = {k: v for k, v in p.inputs}
            if o.get("opt:self.table_l[l].value") == "N" and o.get("opt:self.table_r[r].value") == "S":
                seen += 1
    rep.canary("R18.3 explores Both-arm items stored only on the right (%d paths)" % seen, seen > 0)
