"""C12 — searching from any view is relative to that view's entries, for every query.

Same certificate walk as C01/C02, but started at the node the view is positioned on (a stored,
branching or virtual position), for *every* relation between that node's prefix and the query:
R12.1 find(q): start covers q → the exact node, or the virtual position above the first node q covers, or
      nothing; q strictly covers the start node → a view positioned on the start node (all entries of
      the view); disjoint → nothing;
R12.2 find_exact(q): the exact node iff it holds a value (nothing when the start does not cover q);
R12.3 find_lpm(q): the deepest valued node of the covering chain; nothing when the start does not
      cover q; every node of the chain must have had its value examined;
R12.4 the mutable views hand back the original view on failure (Err(self) with the same position);
R12.5 view_at / view_mut_at are find on view() / view_mut() (checked by interpreting the delegation).
An answer that is not backed by the facts the path examined (in particular: interpreting the insert
classifier at a start node that is not known to cover the query) is reported as unjustified.
"""
from ..absint import StructV, RefV, UnkV, SymV, OPTION, RESULT
from . import common as C
from . import c01

OPTS = {"loop_bound": 3}
ASSUMES = ["C15 well-formed pre-state", "C17 prefix algebra (relation oracle)", "pt/models.py std model"]
LEVEL_TEXT = __doc__
VIEWLOC = "prefix_trie::trieview::ViewLoc"

FUNCS = {
    "TrieView::find": ("find", "R12.1"), "TrieViewMut::find": ("find", "R12.1"),
    "TrieView::find_exact": ("exact", "R12.2"), "TrieViewMut::find_exact": ("exact", "R12.2"),
    "TrieView::find_lpm": ("lpm", "R12.3"), "TrieViewMut::find_lpm": ("lpm", "R12.3"),
    "AsView::view_at": ("find", "R12.5"), "AsViewMut::view_mut_at": ("find", "R12.5"),
}


def declare(rep):
    rep.rule("R12.1", "find: exact node / virtual position above the first covered node / nothing; q ⊋ start → the start node; disjoint → nothing")
    rep.rule("R12.2", "find_exact: the exact node iff valued; nothing outside the view")
    rep.rule("R12.3", "find_lpm: deepest valued node of the covering chain, all chain values examined; nothing outside the view")
    rep.rule("R12.4", "mutable views return Err(self) with the original position on failure")
    rep.rule("R12.5", "view_at / view_mut_at delegate to find")


def name_of(v):
    if isinstance(v, (UnkV, SymV)):
        return v.name
    return repr(v).replace("?", "")


def find_loc(v, depth=0):
    """(variant, idx, prefix) of the first ViewLoc inside a value"""
    if depth > 6:
        return None
    if isinstance(v, StructV):
        if v.adt == VIEWLOC:
            if v.variant == "Node":
                return ("Node", name_of(v.fields["0"].value), None)
            return ("Virtual", name_of(v.fields["1"].value), name_of(v.fields["0"].value))
        for c in v.fields.values():
            r = find_loc(c.value, depth + 1)
            if r:
                return r
    if isinstance(v, RefV):
        return find_loc(v.cell.value, depth + 1)
    return None


def outcome(v):
    """('hit', loc) / ('miss', loc-of-returned-self-or-None)"""
    if isinstance(v, StructV) and v.adt == OPTION:
        if v.variant == "None":
            return ("miss", None)
        return ("hit", find_loc(v.fields["0"].value))
    if isinstance(v, StructV) and v.adt == RESULT:
        loc = find_loc(v.fields["0"].value)
        return ("hit" if v.variant == "Ok" else "miss", loc)
    return ("?", None)


def start_of(p):
    """the view's own position: from the inputs (variant of the loc) and the first arena index"""
    var = None
    for k, v in p.inputs:
        if k.startswith("variant:") and k.endswith("loc"):
            var = v
            break
    idx = None
    for e in p.events:
        if e.kind == "arena_index":
            idx = e["idx"].replace("?", "")
            break
    return var, idx


def run_config(ctx, rep, cfg, F, funcs=None, floor=1600):
    n = 0
    for short, (kind, rule) in (funcs or FUNCS).items():
        if short not in F.short:
            rep.bad(rule, short, "missing", "%s not found" % short, kind="unrecognised", config=cfg)
            continue
        paths = ctx.paths(F, short, OPTS)
        C.report_unrecognised(rep, rule, short, paths, F)
        q = c01.query_name(F, F.short[short])
        mutable = "Mut" in short
        for p in paths:
            if p.result[0] == "panic":
                rep.bad(rule, short, "panics", "%s can panic: %s (inputs: %s)" % (short, C.result_str(p), C.inputs_str(p, 10)), config=cfg)
        for p in C.complete(paths):
            n += 1
            T = c01.table_of(p)
            var, start = start_of(p)
            res, loc = outcome(p.result[1])
            ins = C.inputs_str(p, 14)
            if T is None or start is None:
                # nothing of the arena was examined at all
                rep.bad(rule, short, "unjustified:no-facts", "%s answers %s without examining the view's node (inputs: %s)" % (short, res, ins), config=cfg)
                continue
            W = C.Walk(p, T, start, q)
            sr = W.start_rel

            def bad(detail, msg):
                rep.bad(rule, short, detail, "%s: %s — start node %s has relation %s to the query, covering chain %s, end %s; "
                        "the function returns %s %s (inputs: %s)" % (short, msg, start, sr, W.chain, W.end, res, loc, ins), config=cfg)
            if sr is None:
                bad("unjustified:relation", "the relation of the view's node to the query was never examined")
                continue
            want = None      # None = miss ; ("Node", k) ; ("Virtual", k) ; ("any", k)
            if kind == "exact":
                if sr in ("EQ", "SUP"):
                    cls = c01.classify(W)
                    if cls[0] == "uncertified":
                        bad("unjustified", cls[1])
                        continue
                    want = ("Node", cls[1]) if cls[0] == "present" else None
            elif kind == "lpm":
                if sr in ("EQ", "SUP"):
                    unk = [x for x in W.chain if not W.value_known(x)]
                    if unk:
                        bad("unexamined", "node %s covers the query but its value was never examined" % unk[0])
                        continue
                    if W.exact is None and not W.certified:
                        bad("uncertified-end", W.why)
                        continue
                    want = ("Node", W.valued[-1]) if W.valued else None
            else:  # find
                if sr in ("EQ", "SUP"):
                    if W.exact is not None:
                        want = ("Node", W.exact)
                    elif not W.certified:
                        bad("unjustified", W.why)
                        continue
                    elif W.end[0] == "not-covering" and W.end[4] == "SUB":
                        want = ("Virtual", W.end[3])
                    else:
                        want = None
                elif sr == "SUB":
                    want = ("any", start)
                else:
                    want = None
            if want is None:
                if res != "miss":
                    bad("hit-but-nothing-covered", "no entry of the view can be the answer, yet a view is returned")
                else:
                    rep.ok(rule, short, "miss:" + sr)
                    if mutable and "view_mut_at" not in short:
                        if loc is None or loc[1] != start or (var and loc[0] != var):
                            rep.bad("R12.4", short, "err-not-self", "%s fails but does not hand back the original view (returned position %s, "
                                    "original %s %s)" % (short, loc, var, start), config=cfg)
                        else:
                            rep.ok("R12.4", short, "Err(self)")
                continue
            if res != "hit":
                bad("miss-but-covered:" + want[0], "the view holds entries the query %s, the answer must be a view at %s %s"
                    % ("covers" if kind == "find" else "matches", want[0], want[1]))
                continue
            ok = loc is not None and loc[1] == want[1] and (want[0] == "any" or loc[0] == want[0])
            if ok and loc[0] == "Virtual" and loc[2] != q.lstrip("*"):
                ok = False
            if not ok:
                bad("wrong-position:" + want[0], "the answer must be positioned at %s %s" % (want[0], want[1]))
            else:
                rep.ok(rule, short, "hit:%s:%s" % (sr, want[0]),
                       sample={"start": start, "relation": sr, "chain": W.chain, "answer": list(loc), "inputs": ins} if sr == "SUB" else None)
    rep.floor("view search paths checked (%s)" % cfg, n, floor)


def finalize(ctx, rep):
    F = ctx.main()
    # canary: there must be analysed paths on which the start node does NOT cover the query
    # (the class of inputs the defect D5 lived in) and on which nothing is returned
    seen = 0
    for p in C.complete(ctx.paths(F, "TrieView::find_lpm", OPTS)):
        var, start = start_of(p)
        W = C.Walk(p, c01.table_of(p), start, "*prefix")
        if W.start_rel in ("SUB", "DISJ"):
            seen += 1
    rep.canary("R12.3 explores start nodes that do not cover the query (%d paths)" % seen, seen > 0)
