"""C05 — union yields each prefix of either operand once, in order, correctly tagged.

Every arm of Union::next and UnionMut::next (Both / FirstL / FirstR / OnlyL / OnlyR) and both constructors are
interpreted over all abstract input classes (child presence, value presence, relation and order of the paired
prefixes, branch side) and compared with the specification of DESIGN.md Appendix B:
R05.1 the entries pushed and their order (pair classification; one-sided descent with the untouched sibling kept on
      the correct end of the stack; right children before left children),
R05.3 the item emitted (Left / Right / Both from the value presence of the paired nodes, values of exactly those
      nodes, key of a paired node), for union and union_mut alike,
R05.5 the initial stack for any two view positions and any relation of their nodes.
Decisions taken without examining a needed fact are reported as unjustified.
"""
from . import setop_prop as S

ASSUMES = S.ASSUMES
LEVEL_TEXT = __doc__
RULES = {"push": "R05.1", "emit": "R05.3", "ctor": "R05.5", "partition": "R05.2"}


def declare(rep):
    rep.rule("R05.2", "independent of the tables: no node still to be visited is dropped (left always, right for union), none is pushed twice")
    rep.rule("R05.1", "entries pushed by every arm, in order (pair classification + one-sided descent), as specified")
    rep.rule("R05.3", "item emitted by every arm: tag from value presence, values and key of the paired nodes")
    rep.rule("R05.5", "initial stack of union / union_mut for any two view positions")


def run_config(ctx, rep, cfg, F):
    S.run_ops(ctx, rep, cfg, F, ["union"], RULES, "struct", 3000)


def _accessors(ctx, rep, cfg, F):
    from . import setops
    setops.check_item_accessors(ctx, rep, F, "R05.3", ["UnionItem::prefix", "UnionItem::both"])


_run_config_arms = run_config


def run_config(ctx, rep, cfg, F):
    _run_config_arms(ctx, rep, cfg, F)
    _accessors(ctx, rep, cfg, F)


def finalize(ctx, rep):
    S.swap_canary(ctx, rep, "union", RULES)
