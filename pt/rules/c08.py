"""C08 — LPM annotations of union / difference items are true LPMs in the other view.

Decides the inductive invariant "the annotation a stack entry carries for side X is the deepest valued X-node on the
path to that entry": R08.1 every entry pushed by every arm of Union, Difference and DifferenceMut carries, for each side
whose node it pairs, that node's own (prefix, value) if it holds one and otherwise the annotation of the popped entry,
and the unchanged popped annotation for the other side; emitted Left / Right / difference items report the popped
entry's annotation of the other side; R08.4 the constructors seed nothing inherited (a root's own value only on the
side it pairs).  Compared on the paths whose structure (C05/C07) agrees with the specification.
"""
from . import setop_prop as S

ASSUMES = S.ASSUMES
LEVEL_TEXT = __doc__
RULES = {"ann": "R08.1", "ctor": "R08.4", "seed": "R08.4", "pairing": "R08.2"}


def declare(rep):
    rep.rule("R08.1", "annotations of pushed entries and emitted items: own value of a paired node, else inherited")
    rep.rule("R08.2", "pushed entries pair the specified nodes (precondition of the annotation invariant; structure itself is C05/C07)")
    rep.rule("R08.4", "constructors: nothing inherited at the start")


def run_config(ctx, rep, cfg, F):
    S.run_ops(ctx, rep, cfg, F, ["union", "difference"], RULES, "ann", 3500)


def _accessors(ctx, rep, cfg, F):
    from . import setops
    setops.check_item_accessors(ctx, rep, F, "R08.1", ["UnionItem::left", "UnionItem::right"])


_run_config_arms = run_config


def run_config(ctx, rep, cfg, F):
    _run_config_arms(ctx, rep, cfg, F)
    _accessors(ctx, rep, cfg, F)


def finalize(ctx, rep):
    S.swap_canary(ctx, rep, "union", RULES)
