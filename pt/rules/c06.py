"""C06 — intersection yields exactly the prefixes stored in both operands.

Arms Both / FirstA / FirstB of Intersection::next and IntersectionMut::next and both constructors against the
specification: R06.1 pair classification with pruning of non-overlapping pairs (nothing is pushed for disjoint /
same-length-different pairs and one-sided inputs) and one-sided descent to the child on the other operand's branch
side (never keeping a sibling); R06.3 emission only in Both and iff both nodes hold a value, with both values;
R06.5 the initial stack for any two view positions (two disjoint sub-views start with an empty stack).
"""
from . import setop_prop as S

ASSUMES = S.ASSUMES
LEVEL_TEXT = __doc__
RULES = {"push": "R06.1", "emit": "R06.3", "ctor": "R06.5", "partition": "R06.2"}


def declare(rep):
    rep.rule("R06.2", "independent of the tables: no node still to be visited is dropped (left always, right for union), none is pushed twice")
    rep.rule("R06.1", "entries pushed by every arm (prune + one-sided descent) as specified")
    rep.rule("R06.3", "emission only in Both, iff both nodes hold a value, with both values")
    rep.rule("R06.5", "initial stack of intersection / intersection_mut for any two view positions")


def run_config(ctx, rep, cfg, F):
    S.run_ops(ctx, rep, cfg, F, ["intersection"], RULES, "struct", 600)


def finalize(ctx, rep):
    S.swap_canary(ctx, rep, "union", RULES)
