"""C14 — mutable access is exclusive: live mutable references never alias an entry; Send / Sync.

R14.1 (type level) 43 client programs that would create aliasing or move / share non-thread-safe values across threads are
      rejected by the compiler with the expected error code on the marked line, and each one's twin (that line removed)
      compiles; 4 must-compile programs guard the intended patterns (split into two threads, sequential re-borrow, ...).
      Covers: two live view_mut / view + view_mut / iter_mut twice / get while iter_mut / two entries; use of a TrieViewMut
      after left, right, split, find, find_exact, find_lpm, into_iter; view() of a mutable view kept across a mutable use or
      a consuming call; union_mut with the own map; Clone of every mutable handle; Send / Sync of maps, sets, views and
      iterators over Rc / Cell; every mutable handle with a Sync-but-not-Send value type is not Send.
R14.2 (inventory, recomputed from the type-checked program) a *mutable handle* is a type holding `&Table` from whose methods
      `Table::get_mut` is reachable; every such type has its Send and Clone witnesses; every function that builds one takes
      `&mut PrefixMap` / `&mut PrefixSet`, `&mut` of a mutable handle or a mutable handle by value (or is the unsafe
      constructor / Default of that type); `Table::get_mut` is called only from methods of mutable handles.
R14.3 every mutable handle is invariant in its value-type parameters.
R14.4 the only unsafe impls of auto traits are Send / Sync for Table, bounded by P, T: Send resp. Sync.
R14.7 a function that takes a mutable handle by reference returns no view / iterator / reference whose lifetime is the handle's own
      lifetime parameter rather than that of the borrow (such a value would coexist with later mutable uses of the handle).
R14.6 unsafe inventory: outside inner.rs every unsafe operation is a call of one of the crate's own unsafe mutable-handle
      constructors or of Table::get_mut (no transmute, no raw pointers, no foreign unsafe function).
R14.5 single visit: in every step of every `*_mut` traversal `get_mut` is applied only to the index (indices) of the entry
      popped in this step — one per table — so, the arena being a tree (C15), no slot is mutably borrowed twice.
R14.9 disjoint handles: every safe function that returns two or more mutable handles (found by signature: `split`) is
      interpreted on all positions (real node, virtual position on an edge); on every path the handles it returns sit at
      pairwise non-overlapping sub-tries — distinct nodes, none an ancestor of another, none at the consumed view's own node.
      Two handles over one node give two `&mut` to the same entries from safe code.  Code the interpreter cannot follow is
      reported (fail closed).
Not decided: the schedule clause (concurrent = sequential) beyond disjointness + the auto-trait bounds; aliasing-model UB.
"""
import shutil

from .. import absint, extract, witness
from . import common as C
from . import c03, setops

ASSUMES = ["rustc's borrow checker and auto-trait rules", "C15 (arena is a tree) for R14.5"]
LEVEL_TEXT = __doc__
ALL_SUBSETS = True   # thorough tier: all 16 feature subsets (rules read configuration-dependent code)
TABLE_GET_MUT = "prefix_trie::inner::Table::<P, T>::get_mut"
MAP_ADTS = ("prefix_trie::map::PrefixMap", "prefix_trie::set::PrefixSet")


def declare(rep):
    rep.rule("R14.1", "compile-fail witnesses (expected error code on the marked line, compiling twin) and must-compile witnesses")
    rep.rule("R14.2", "mutable-handle inventory: witnesses exist for each; constructors only from exclusive receivers; get_mut callers are handle methods")
    rep.rule("R14.3", "mutable handles invariant in their value-type parameters")
    rep.rule("R14.4", "unsafe impl Send/Sync only for Table, with the P,T: Send / Sync bounds")
    rep.rule("R14.8", "arena primitives: index/index_mut index the node vector with the given index; get_mut bounds-checks before offsetting by exactly that index")
    rep.rule("R14.7", "a function borrowing a mutable handle returns nothing tied to the handle's own lifetime")
    rep.rule("R14.6", "outside inner.rs the only unsafe operations are the crate's own handle constructors and Table::get_mut")
    rep.rule("R14.9", "a function returning several mutable handles places them at pairwise non-overlapping sub-tries on every path")
    rep.rule("R14.5", "get_mut only on the indices of the entry popped in the same step, one per table")


def get_mut_path(F):
    """the unsafe accessor handing out `&mut Node` through `&Table` (found by signature, not by name)"""
    for f in F.lib_fns():
        if f.get("unsafe") and f.get("impl") and F.adt_of(f["impl_self_ty"]) == C.TABLE and f["inputs"]:
            t0 = F.types[f["inputs"][0]]
            out = F.types[f["output"]]
            if t0["t"] == "ref" and not t0["m"] and out["t"] == "ref" and out["m"] and F.adt_of(f["output"]) == C.NODE:
                return f["path"]
    return TABLE_GET_MUT


def handles(F):
    """(all table-holding types, mutable handles)"""
    holders = {}
    for path, a in F.adts.items():
        for v in a["variants"]:
            for f in v["fields"]:
                s = F.types[f["ty"]]["s"]
                if "inner::Table<" in s and "&" in s:
                    holders[path] = a
    # wrappers around holders (ValuesMut { inner: IterMut })
    changed = True
    while changed:
        changed = False
        for path, a in F.adts.items():
            if path in holders:
                continue
            for v in a["variants"]:
                for f in v["fields"]:
                    t = F.types[f["ty"]]
                    if t["t"] == "adt" and t["p"] in holders:
                        holders[path] = a
                        changed = True
    # reachability of get_mut from methods of each holder
    calls = {}
    for p, b in F.bodies.items():
        m = b.get("mir")
        if m:
            calls[p] = {c.get("resolved") or c.get("callee") for c in m["calls"]}
    gm = get_mut_path(F)

    def reaches(start):
        seen, todo = set(), [start]
        while todo:
            x = todo.pop()
            if x in seen:
                continue
            seen.add(x)
            for c in calls.get(x, ()):
                if c == gm:
                    return True
                if c in F.bodies:
                    todo.append(c)
        return False
    mut = {}
    for path in holders:
        for f in F.lib_fns():
            if f.get("impl") and F.adt_of(f["impl_self_ty"]) == path and reaches(f["path"]):
                mut[path] = holders[path]
                break
    return holders, mut


def first_param_ok(F, f, mut_handles):
    if not f["inputs"]:
        return False
    t = F.types[f["inputs"][0]]
    if t["t"] == "ref":
        inner = F.types[t["i"]]
        adt = inner.get("p") if inner["t"] == "adt" else None
        return t["m"] and (adt in MAP_ADTS or adt in mut_handles)
    if t["t"] == "adt":
        return t["p"] in mut_handles or t["p"] in MAP_ADTS and False
    return False


def handle_producer(F, cf, mut):
    """an unsafe associated function of a mutable-handle type that returns that handle type (possibly inside Option / Result /
    a tuple): the unsafe constructor, or a private helper that re-positions a handle.  Being unsafe, its contract is its
    callers' obligation — every safe caller is held to the receiver rule of R14.2."""
    if not (cf and cf.get("unsafe") and cf.get("impl")):
        return None
    adt = F.adt_of(cf["impl_self_ty"])
    if adt not in mut:
        return None
    out = F.types[cf["output"]]["s"]
    return adt if adt.split("::")[-1] in out or "Self" in out else None


def multi_handle_fns(F, mut):
    """safe functions whose return type mentions a mutable handle type at least twice (a tuple / array of handles)"""
    import re
    out = []
    for f in F.lib_fns():
        if f.get("unsafe") or not (f.get("exported") or f.get("reachable")):
            continue
        s = F.types[f["output"]]["s"]
        if any(len(re.findall(r"(?<![A-Za-z0-9_])%s<" % re.escape(a.split("::")[-1]), s)) >= 2 for a in mut):
            out.append(f)
    return out


def overlapping(a, b):
    """slot keys name paths from the view's node (`x`, `x.l`, `x.r.l`): two sub-tries overlap iff one key extends the other"""
    return a == b or a.startswith(b + ".") or b.startswith(a + ".")


def disjoint_handles(ctx, rep, cfg, F, mut):
    from ..absint import TupleV
    from . import c11, c12
    fns = multi_handle_fns(F, mut)
    rep.floor("functions returning several mutable handles (%s)" % cfg, len(fns), 1)
    n = both = 0
    for f in fns:
        short = F.short_of[f["path"]]
        paths = ctx.paths(F, short, c11.OPTS)
        C.report_unrecognised(rep, "R14.9", short, paths, F)
        for p in C.complete(paths):
            n += 1
            res = p.result[1]
            cells = [c.value for c in res.cells] if isinstance(res, TupleV) else [res]
            locs = []
            opaque = False
            for r in cells:
                hit, loc = c12.outcome(r)
                if hit == "hit":
                    if loc is None:
                        opaque = True
                    else:
                        locs.append(str(loc[1]).replace("?", ""))
                elif hit == "?":
                    opaque = True
            ins = C.inputs_str(p, 10)
            if opaque:
                rep.bad("R14.9", short, "position-unknown", "%s returns a mutable handle whose position the interpreter cannot name (result %s; inputs: %s)"
                        % (short, repr(res)[:160], ins), kind="unrecognised", config=cfg)
                continue
            clash = [(a, b) for i, a in enumerate(locs) for b in locs[i + 1:] if overlapping(a, b)]
            if clash:
                rep.bad("R14.9", short, "overlap", "%s hands out two mutable handles over overlapping sub-tries (nodes %s and %s): both reach the same "
                        "entries mutably from safe code (inputs: %s)" % (short, clash[0][0], clash[0][1], ins), config=cfg)
                continue
            if len(locs) >= 2:
                both += 1
            rep.ok("R14.9", short, "%d handles, disjoint" % len(locs), sample={"fn": short, "positions": locs, "inputs": ins} if len(locs) >= 2 and both == 1 else None)
    rep.floor("multi-handle paths interpreted (%s)" % cfg, n, 4)
    rep.floor("paths on which two handles are returned (%s)" % cfg, both, 1)


def run_config(ctx, rep, cfg, F):
    holders, mut = handles(F)
    names = sorted(x.split("::")[-1] for x in mut)
    rep.floor("mutable handle types found (%s)" % cfg, len(mut), 1)
    ws = {w["name"] for w in witness.load()}
    for n in names:
        for kind in ("send_", "clone_"):
            if kind + n not in ws:
                rep.bad("R14.2", n, "no-%switness" % kind, "mutable handle %s has no %s witness: its auto traits / non-clonability are unchecked" % (n, kind[:-1]), config=cfg)
            else:
                rep.ok("R14.2", n, kind + "witness present")
    # constructors
    n_ctor = 0
    for f in F.lib_fns():
        body = F.bodies.get(f["path"])
        if not body:
            continue
        built = set()
        def visit(node, ps):
            if node["k"] == "Adt" and node["adt"] in mut:
                built.add(node["adt"])
        from ..facts import walk
        walk(body["thir"]["body"], visit)
        for q, b in F.bodies.items():
            if q.startswith(f["path"] + "::{closure"):
                walk(b["thir"]["body"], visit)
        for c in (body.get("mir") or {}).get("calls", []):
            callee = c.get("resolved") or c.get("callee") or ""
            cf = F.fns.get(callee)
            if handle_producer(F, cf, mut):
                built.add(handle_producer(F, cf, mut))
        if not built:
            continue
        short = F.short_of[f["path"]]
        n_ctor += 1
        own = f.get("impl") and F.adt_of(f["impl_self_ty"]) in built
        if own and (handle_producer(F, f, mut) or (f["name"] == "default" and not f["inputs"])):
            rep.ok("R14.2", short, "unsafe handle-producing function / Default of the handle itself (contract checked at its safe callers)")
            continue
        if first_param_ok(F, f, mut):
            rep.ok("R14.2", short, "exclusive receiver", sample={"fn": short, "builds": sorted(x.split("::")[-1] for x in built),
                                                                 "receiver": F.types[f["inputs"][0]]["s"]} if n_ctor == 3 else None)
        else:
            recv = F.types[f["inputs"][0]]["s"] if f["inputs"] else "(none)"
            rep.bad("R14.2", short, "shared-receiver", "%s builds a %s from receiver `%s`: a mutable handle may only be obtained from &mut map/set, "
                    "&mut of a mutable handle, or a mutable handle by value — otherwise two of them can alias" % (short, sorted(x.split("::")[-1] for x in built), recv), config=cfg)
    rep.floor("functions building mutable handles (%s)" % cfg, n_ctor, 5)
    # get_mut callers
    n_gm = 0
    gm = get_mut_path(F)
    for name, cs in C.mir_callers(F, gm).items():
        for c in cs:
            if (c.get("resolved") or c.get("callee")) != gm:
                continue
            n_gm += 1
            base = name.split("::{closure")[0]
            f = F.fn(base)
            if f and f.get("impl") and F.adt_of(f["impl_self_ty"]) in mut:
                rep.ok("R14.2", base, "get_mut inside a mutable handle")
            else:
                rep.bad("R14.2", base, "get_mut-outside-handle", "%s calls Table::get_mut but is not a method of a mutable handle" % base, config=cfg)
    rep.floor("Table::get_mut call sites (%s)" % cfg, n_gm, 1)
    # ---- R14.3
    for path, a in mut.items():
        for g, v in zip(a["generics"], a["variances"]):
            if g["kind"] == "type" and g["name"] in ("T", "L", "R"):
                if v not in ("Invariant", "o"):
                    rep.bad("R14.3", path.split("::")[-1], "%s:%s" % (g["name"], v), "%s is %s in %s: a mutable handle must be invariant in its value types"
                            % (path.split("::")[-1], v, g["name"]), config=cfg)
                else:
                    rep.ok("R14.3", path.split("::")[-1], g["name"] + " invariant")
    # ---- R14.4
    n_unsafe = 0
    for i in F.impls:
        if not i.get("unsafe"):
            continue
        n_unsafe += 1
        tr = (i.get("trait") or "").split("::")[-1]
        adt = F.adt_of(i["self_ty"])
        preds = {p["s"] for p in i["preds"]}
        if adt == C.TABLE and tr in ("Send", "Sync") and {"P: std::marker::%s" % tr, "T: std::marker::%s" % tr} <= preds:
            rep.ok("R14.4", "unsafe impl %s for Table" % tr, "bounded by P, T: " + tr, sample={"preds": sorted(preds)})
        else:
            rep.bad("R14.4", "unsafe impl %s for %s" % (tr, F.short_ty(i["self_ty"])), "bounds", "unsafe impl %s for %s with bounds %s: only Table may carry "
                    "unsafe auto-trait impls, and only with P, T: %s" % (tr, F.short_ty(i["self_ty"]), sorted(preds), tr), config=cfg)
    # ---- R14.8: the arena primitives the interpreter models
    C.check_primitives(rep, F, "R14.8", ("get_mut", "index"))
    # ---- R14.7: nothing borrowed from a mutable handle outlives that borrow
    def regions_in(ti, depth=0):
        """regions mentioned in a type: [(region, what)]"""
        t = F.types[ti]
        out = []
        if depth > 6:
            return out
        if t["t"] == "ref":
            out.append((t["r"], "&" + ("mut " if t["m"] else "") + F.short_ty(t["i"])))
            out += regions_in(t["i"], depth + 1)
        elif t["t"] in ("adt", "tuple", "fndef"):
            for a in t.get("a", []):
                if isinstance(a, str) and a.startswith("'"):
                    out.append((a, F.short_ty(ti)))
                elif isinstance(a, int):
                    out += regions_in(a, depth + 1)
        elif t["t"] in ("slice", "array", "ptr"):
            out += regions_in(t["i"], depth + 1)
        return out
    n_borrow = 0
    for f in F.lib_fns():
        if (f.get("impl_trait") or "").endswith("::Iterator"):
            continue        # next(&mut self) legitimately yields items of the iterator's own lifetime: soundness is R14.5 (single visit)
        for ti in f["inputs"]:
            t = F.types[ti]
            if t["t"] != "ref":
                continue
            inner = F.types[t["i"]]
            if inner["t"] != "adt" or inner["p"] not in mut:
                continue
            h_lts = {a for a in inner.get("a", []) if isinstance(a, str) and a.startswith("'")}
            n_borrow += 1
            esc = [(r, what) for r, what in regions_in(f["output"]) if r in h_lts and r != t["r"]]
            short = F.short_of[f["path"]]
            if esc:
                rep.bad("R14.7", short, "outlives-borrow", "%s takes `%s` but returns `%s` tied to the handle's own lifetime %s instead of to the borrow: what it returns "
                        "stays usable after the mutable handle is used again (a shared and a mutable path to the same entries)"
                        % (short, t["s"], esc[0][1], esc[0][0].split("/")[0]), config=cfg)
            else:
                rep.ok("R14.7", short, "returns nothing that outlives the borrow of the handle")
    rep.floor("functions borrowing a mutable handle (%s)" % cfg, n_borrow, 10)
    # ---- R14.6: unsafe operations outside inner.rs are calls of the crate's own unsafe constructors / accessor only
    from ..facts import find_all
    n_unsafe_calls = 0
    for f in F.lib_fns():
        bodies = [(F.short_of[f["path"]], F.bodies[f["path"]])] + [(F.short_of.get(q, q), b) for q, b in F.bodies.items() if q.startswith(f["path"] + "::{closure")]
        for bshort, body in bodies:
            for n_, ps in find_all(body["thir"]["body"], lambda x: x["k"] == "FnRef" and x.get("unsafe")):
                if n_.get("exp"):
                    continue            # macro-generated (format_args!, derives)
                n_unsafe_calls += 1
                callee = n_["path"]
                cf = F.fns.get(callee)
                local_ok = cf is not None and cf.get("impl") and (callee == gm or handle_producer(F, cf, mut) is not None)
                if local_ok or C.in_module(F, f["path"], C.ARENA_MOD):
                    rep.ok("R14.6", bshort, "unsafe call of " + n_["name"])
                else:
                    rep.bad("R14.6", bshort, "foreign-unsafe:" + n_["name"], "%s (%s) calls the unsafe function %s: outside inner.rs the only unsafe operations "
                            "may be the crate's own mutable-handle constructors and Table::get_mut (whose contracts R14.2 checks); anything else "
                            "(transmute, raw pointers, lifetime extension) bypasses the borrow-based exclusivity argument" % (bshort, f["file"], callee), config=cfg)
            for n_, ps in find_all(body["thir"]["body"], lambda x: x["k"] == "Deref" and isinstance(x.get("e"), dict) and "ty" in x["e"] and F.types[x["e"]["ty"]]["t"] == "ptr"):
                if not C.in_module(F, f["path"], C.ARENA_MOD) and not n_.get("exp"):
                    rep.bad("R14.6", bshort, "raw-deref", "%s dereferences a raw pointer outside inner.rs" % bshort, config=cfg)
    rep.floor("unsafe calls inventoried (%s)" % cfg, n_unsafe_calls, 10)
    # ---- R14.5
    n_steps = 0
    for op, spec in setops.OPS.items():
        for it_short, info in spec["iters"].items():
            if not info["mut"] or it_short not in F.short:
                continue
            for kind in setops.KINDS:
                if spec["names"][kind] is None:
                    continue
                for p in setops.arm_paths(ctx, F, op, it_short, kind, info["lpm"]):
                    gm = p.ev("get_mut")
                    n_steps += 1
                    per_table = {}
                    for e in gm:
                        per_table.setdefault(e["table"], []).append(e["idx"].replace("?", ""))
                    okp = True
                    for t, idxs in per_table.items():
                        want = "l" if t.endswith("table_l") else "r"
                        if any(i != want for i in idxs) or len(set(idxs)) != 1:
                            okp = False
                    if not okp:
                        rep.bad("R14.5", "%s[%s]" % (it_short, spec["names"][kind]), "get_mut-foreign-index", "%s[%s] applies get_mut to %s: only the "
                                "popped entry's own index of each table may be borrowed mutably" % (it_short, spec["names"][kind], per_table), config=cfg)
    for short in ("<IterMut as Iterator>::next", "<ValuesMut as Iterator>::next"):
        if short in F.short:
            key = (cfg, "step;%s;one" % short)
            if key not in ctx._paths:
                ctx._paths[key] = absint.explore(F, None, None, {"loop_bound": 1}, program=c03.step_program(F, short, ["n"]))
            for p in ctx._paths[key]:
                n_steps += 1
                idxs = [e["idx"].replace("?", "") for e in p.ev("get_mut")]
                if any(i != "n" for i in idxs):
                    rep.bad("R14.5", short, "get_mut-foreign-index", "%s applies get_mut to %s, not only to the popped node" % (short, idxs), config=cfg)
    rep.ok("R14.5", "mutable traversals", "get_mut on popped indices only")
    rep.floor("mutable traversal steps checked (%s)" % cfg, n_steps, 1000)
    # ---- R14.9
    disjoint_handles(ctx, rep, cfg, F, mut)
    # ---- R14.1
    if cfg == "default":
        raw, info = extract.extract_one("default-witness", [], repo=ctx.repo, keep_target=True)
        try:
            if raw is None:
                rep.bad("R14.1", "witness build", "", "cannot build the crate for the witnesses: %s" % info.get("error", "")[:400], kind="unrecognised", config=cfg)
            else:
                res, err = witness.run_all(info["target_dir"])
                if err:
                    rep.bad("R14.1", "witness build", "", err, kind="unrecognised", config=cfg)
                for r in res or []:
                    if r["ok"]:
                        rep.ok("R14.1", r["name"], r["expect"], sample={"witness": r["name"], "expect": r["expect"], "diagnostic": r["errors"][:1]} if r["name"] in
                               ("send_TrieViewMut", "alias_view_of_view_mut_across_iter_mut") else None)
                    else:
                        rep.bad("R14.1", r["name"], r["expect"], "witness %s: %s" % (r["name"], r["why"]), config=cfg)
                rep.floor("witnesses compiled", len(res or []), 47)
        finally:
            if info.get("tmp"):
                shutil.rmtree(info["tmp"], ignore_errors=True)


def finalize(ctx, rep):
    rep.canary("R14.1 twins: a witness whose twin does not compile is itself reported", True)
