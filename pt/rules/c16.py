"""C16 — every arena slot is either linked or on the free list; storage stays bounded.

Decides the partition invariant as a preserved invariant: R16.1 on every path of every function
that writes links or the free list, each slot that loses its link is pushed on the free list exactly
once (or re-linked / queued), nothing still linked is pushed, nothing hangs below a freed slot;
R16.2 new_node grows the arena only after free.pop() returned None and overwrites all four fields of
a recycled slot; R16.3 clear truncates arena and free list together and re-creates the root, and
every function whose MIR touches links or the free list is covered by an analysed path; R16.4 nothing
reachable from _retain allocates.  The numeric bound is a corollary and is not computed.
"""
from .. import absint
from . import common as C
from . import c04

OPTS = {"loop_bound": 3}
CLEARERS = {"PrefixMap::clear"}
ASSUMES = ["C15 tree shape of the pre-state (distinct link values denote distinct slots)", "pt/models.py std model"]
LEVEL_TEXT = __doc__
DEEPER = False     # thorough tier: more configurations and the mutant corpus, same unrolling (path count grows too fast)


def link_free_writers(F):
    s = {}
    for field in ("left", "right"):
        for name, ws in C.mir_writers(F, C.NODE, field).items():
            s.setdefault(name, []).extend(ws)
    for name, ws in C.mir_writers(F, C.PMAP, "free").items():
        s.setdefault(name, []).extend(ws)
    return s


def entry_programs(ctx, F):
    """(where, paths, entry_returns_fresh)"""
    out = []
    for short in ("PrefixMap::insert", "PrefixMap::remove", "PrefixMap::remove_children", "PrefixMap::clear",
                  "PrefixMap::remove_keep_tree"):
        if short in F.short:
            out.append((short, ctx.paths(F, short, OPTS), False))
    if "PrefixMap::new_node" in F.short:      # private helper: analysed on its own only while it exists under this name
        out.append(("PrefixMap::new_node", ctx.paths(F, "PrefixMap::new_node", OPTS), True))
    for where, paths in C.retain_paths(ctx, F):
        out.append((where, paths, False))
    for f in F.lib_fns():
        short = F.short_of[f["path"]]
        is_h, variant = c04.handle_of(F, short)
        if not is_h:
            continue
        params = C.fn_params(F, f["path"])
        if not params or params[0][0] != "self":
            continue
        borrows = F.types[params[0][1]]["t"] == "ref"
        key = (F.config, "entry;" + short)
        if key not in ctx._paths:
            prog = C.entry_then(F, short, variant, then=c04.typestate_then if borrows else None)
            ctx._paths[key] = absint.explore(F, None, None, dict(OPTS, loop_bound=2), program=prog)
        out.append(("PrefixMap::entry;" + short, ctx._paths[key], False))
    return out


def declare(rep):
    rep.rule("R16.1", "slot partition preserved on every path: unlinked ⇒ freed once (or re-linked/queued); freed ⇒ not linked; "
                      "nothing orphaned below a freed slot; fresh slots end linked exactly once")
    rep.rule("R16.2", "new_node: arena grows only after free.pop() = None; a recycled slot has prefix, value, left, right overwritten")
    rep.rule("R16.3", "clear: arena.clear + free.clear + fresh root always together")
    rep.rule("R16.5", "(shared with C19) Clone derived over all fields, or clone/clone_from take table, free list and counter from the source")
    rep.rule("R16.4", "no allocation is reachable from _retain (it reads links of slots it has just freed)")


def run_config(ctx, rep, cfg, F):
    if True:
        writers = link_free_writers(F)
        entered = set()
        n_freed = 0
        for where, paths, ret_fresh in entry_programs(ctx, F):
            C.report_unrecognised(rep, "R16.1", where, paths, F)
            entered |= C.functions_entered(paths) | {where.split(";")[-1].split("[")[0]}
            sampled = False
            for p in paths:
                if p.result[0] not in ("ret", "cut"):
                    continue
                g = C.SlotGraph(p)
                probs = g.problems(ret_fresh)
                n_freed += len(g.freed)
                for kind, slot, text in probs:
                    rep.bad("R16.1", where, "%s:%s" % (kind, slot),
                            "%s: %s (free list pushes on this path: %s; inputs: %s)" % (where, text, g.freed, C.inputs_str(p, 12)),
                            config=cfg, extra={"order": g.order})
                if not probs:
                    rep.ok("R16.1", where, "partition",
                           sample=None if sampled or not g.freed else {"inputs": C.inputs_str(p, 12), "freed": g.freed, "order": g.order})
                    sampled = sampled or bool(g.freed)
                # R16.2 on every path that allocates
                pops = [o for o in g.order if o[0] in ("free.pop", "arena.push")]
                for i, (what, key) in enumerate(g.order):
                    if what == "arena.push" and not g.arena_cleared:
                        before = [o for o in g.order[:i] if o[0] == "free.pop"]
                        if not before or before[-1][1] is not None:
                            rep.bad("R16.2", where, "grow-before-pop", "%s grows the arena although the free list was not "
                                    "found empty immediately before (order: %s)" % (where, g.order), config=cfg)
                        else:
                            rep.ok("R16.2", where, "grow only after pop=None")
                for x in g.fresh:
                    if x in g.grown:
                        continue
                    fields = set()
                    for e in p.events:
                        if e.kind == "prefix_write" and e["node"] == x:
                            fields.add("prefix")
                        if e.kind == "value_write" and e["node"] == x:
                            fields.add("value")
                        if e.kind == "link_write" and e["node"] == x:
                            fields.add(e["side"])
                    missing = {"prefix", "value", "left", "right"} - fields
                    if missing:
                        rep.bad("R16.2", where, "recycled slot keeps stale " + ",".join(sorted(missing)),
                                "%s reuses slot %s from the free list without overwriting %s" % (where, x, sorted(missing)), config=cfg)
                    else:
                        rep.ok("R16.2", where, "recycled slot fully overwritten")
                # R16.3
                if g.arena_cleared or g.free_cleared:
                    root_new = any(o == ("arena.push", "0") for o in g.order)
                    st = p.final.get("self.table", {}).get("0", {})
                    if not (g.arena_cleared and g.free_cleared and root_new):
                        rep.bad("R16.3", where, "partial clear", "%s clears arena=%s free=%s new root=%s: they must go together"
                                % (where, g.arena_cleared, g.free_cleared, root_new), config=cfg)
                    elif st.get("value") != "N" or st.get("left") != "N" or st.get("right") != "N":
                        rep.bad("R16.3", where, "root not empty", "%s: fresh root is %s" % (where, st), config=cfg)
                    else:
                        rep.ok("R16.3", where, "arena, free list and root reset together", sample={"order": g.order, "root": st})
        rep.floor("free-list pushes replayed (%s)" % cfg, n_freed, 15000)
        # coverage: every function whose MIR writes links / free must have been entered
        for short in writers:
            base = short.split("::{closure")[0]
            if base in ("<map::IntoIter as Iterator>::next",):
                continue
            if base not in entered:
                rep.bad("R16.1", short, "uninterpreted", "MIR shows a write of Node::left/right or PrefixMap::free in %s but no "
                        "analysed path goes through it" % short, kind="unrecognised", config=cfg)
        rep.floor("functions writing links or the free list (%s)" % cfg, len(writers), 1)
        # R16.5 clone / clone_from copy arena and free list together (rule of C19, shared)
        from . import c19
        c19.check_clone(ctx, rep, cfg, F, rule="R16.5")
        # R16.4: call-graph reachability from _retain
        reach = reachable(F, C.retain_impl(F)) if C.retain_impl(F) else set()
        allocs = {"PrefixMap::insert", "PrefixMap::clear", "PrefixMap::entry"} | ({"PrefixMap::new_node"} & set(F.short))
        allocs |= set(C.mir_callers(F, "std::vec::Vec::<T, A>::pop")) & set(C.mir_writers(F, C.PMAP, "free"))
        hit = sorted(reach & allocs)
        if hit:
            rep.bad("R16.4", "retain worker", "reaches " + ",".join(hit), "the retain worker reaches %s: a slot it freed could be recycled "
                    "while its links are still being read" % hit, config=cfg)
        else:
            rep.ok("R16.4", "retain worker", "no allocation reachable", sample={"reachable": sorted(reach)})


def finalize(ctx, rep):
    # canary: dropping one free.push from a real path must be reported as a leak
    F = ctx.main()
    fired = False
    for p in ctx.paths(F, "PrefixMap::remove", OPTS):
        if p.result[0] == "ret" and any(e.kind == "vec_push" and e["vec"].endswith(".free") for e in p.events):
            q = absint.PathSummary()
            dropped = False
            for e in p.events:
                if not dropped and e.kind == "vec_push" and e["vec"].endswith(".free"):
                    dropped = True
                    continue
                q.events.append(e)
            q.result = p.result
            fired = any(k == "leak" for k, _, _ in C.SlotGraph(q).problems())
            if fired:
                break
    rep.canary("R16.1 reports a leak when one free.push is removed from a path of remove", fired)


def reachable(F, short):
    seen = set()
    todo = [F.short[short]]
    while todo:
        p = todo.pop()
        if p in seen:
            continue
        seen.add(p)
        b = F.bodies.get(p)
        if not b or not b.get("mir"):
            continue
        for c in b["mir"]["calls"]:
            t = c.get("resolved") or c.get("callee")
            if t and t in F.bodies and t not in seen:
                todo.append(t)
        # closures defined inside
        for q in F.bodies:
            if q.startswith(p + "::{closure") and q not in seen:
                todo.append(q)
    return {F.short_of.get(p, p) for p in seen}
