"""Check driver: contexts, reports, evidence, known findings."""
import hashlib
import json
import os
import sys
import time

from . import absint, extract, facts as factsmod

VERIF = extract.VERIF
EVIDENCE = os.path.join(VERIF, "evidence")
KNOWN = os.path.join(VERIF, "known_findings.json")


class Finding:
    """one rule instance that does not hold.  key = rule|where|detail — no line numbers."""

    def __init__(self, rule, where, detail, message, kind="violation", config=None, extra=None):
        self.rule = rule
        self.where = where
        self.detail = detail
        self.message = message
        self.kind = kind          # violation | unrecognised | floor | vacuous
        self.config = config
        self.extra = extra or {}

    @property
    def key(self):
        return "%s|%s|%s" % (self.rule, self.where, self.detail)

    def to_json(self):
        return {"key": self.key, "rule": self.rule, "where": self.where, "detail": self.detail,
                "kind": self.kind, "message": self.message, "config": self.config, "extra": self.extra}


class Report:
    def __init__(self, prop):
        self.prop = prop
        self.findings = []
        self.instances = 0           # rule instances evaluated
        self.matched = set()         # distinct instances that matched at least one site
        self.samples = []
        self.counts = {}
        self.rules = {}              # rule id -> description
        self.canaries = []           # (name, fired)

    def rule(self, rid, text):
        self.rules[rid] = text

    def ok(self, rule, where, detail="", sample=None):
        self.instances += 1
        self.matched.add("%s|%s|%s" % (rule, where, detail))
        if sample is not None and len(self.samples) < 12:
            self.samples.append({"rule": rule, "where": where, "detail": detail, "sample": sample})

    def bad(self, rule, where, detail, message, kind="violation", config=None, extra=None):
        self.instances += 1
        f = Finding(rule, where, detail, message, kind, config, extra)
        # deduplicate across configurations
        for g in self.findings:
            if g.key == f.key:
                return g
        self.findings.append(f)
        return f

    def count(self, name, n=1):
        self.counts[name] = self.counts.get(name, 0) + n

    def setcount(self, name, n):
        self.counts[name] = n

    def canary(self, name, fired):
        self.canaries.append((name, bool(fired)))
        if not fired:
            self.bad("canary", name, "", "rule did not fire on its in-memory perturbation (rule is vacuous)", kind="vacuous")

    def floor(self, name, got, want):
        self.counts[name] = got
        if got < want:
            self.bad("floor", name, "", "expected at least %d %s, analysed %d (fail closed)" % (want, name, got), kind="floor")


class Renamed:
    """view of a Report that files everything under other rule ids (a rule shared between two properties)"""

    def __init__(self, rep, mapping):
        self._rep = rep
        self._map = mapping

    def _r(self, rule):
        return self._map(rule) if callable(self._map) else self._map.get(rule, rule)

    def ok(self, rule, *a, **k):
        return self._rep.ok(self._r(rule), *a, **k)

    def bad(self, rule, *a, **k):
        return self._rep.bad(self._r(rule), *a, **k)

    def __getattr__(self, name):
        return getattr(self._rep, name)


class Ctx:
    def __init__(self, prop, tier, seed=0, repo=None):
        self.prop = prop
        self.tier = tier
        self.seed = seed
        self.repo = repo
        self.facts = {}      # config -> Facts
        self.infos = []
        self._paths = {}

    def configs_for_tier(self, all_subsets=False):
        """quick: default features and --all-features.  thorough: + --no-default-features, and all 16 feature subsets for the
        properties whose rules read configuration-dependent code (prefix.rs impls, serde, auto traits); the generic trie code
        is the same in every configuration."""
        cfg = {"default": [], "all-features": ["--all-features"]}
        if self.tier == "thorough":
            cfg["no-default"] = ["--no-default-features"]
            if all_subsets:
                cfg.update(extract.all_feature_subsets())
        return cfg

    def load(self, configs=None):
        configs = configs or self.configs_for_tier()
        res = extract.extract(configs, repo=self.repo, jobs=min(16, len(configs)))
        errs = []
        for n, (raw, info) in res.items():
            self.infos.append(info)
            if raw is None:
                errs.append((n, info.get("error", "")))
            else:
                self.facts[n] = canonical_facts(raw)
        return errs

    def main(self):
        """the configuration with the most code"""
        return self.facts.get("all-features") or next(iter(self.facts.values()))

    def paths(self, F, short, opts=None, make_args=None, tag=""):
        """memoised exploration of one function"""
        path = F.short.get(short)
        if path is None:
            return None
        key = (F.config, short, json.dumps(opts_key(opts), sort_keys=True), tag)
        if key not in self._paths:
            mk = make_args(F, path) if make_args else absint.default_args(F, path)
            self._paths[key] = absint.explore(F, path, mk, opts)
        return self._paths[key]


def canonical_facts(raw):
    """fact base with private fields / variants renamed to their role names (pt/canon.py)"""
    from . import canon
    from .rules import setops
    canon.apply_adts(raw, canon.adt_roles(raw))
    canon.apply(raw, canon.field_roles(raw), canon.viewloc_roles(raw))
    canon.apply_params(raw, canon.param_roles(raw))
    F = factsmod.Facts(raw)
    try:
        ren, enums = setops.discover(F)
    except Exception:
        ren, enums = {}, {}
    setops.bind_enums(enums)
    if ren:
        canon.apply(raw, {}, ren)
        F = factsmod.Facts(raw)
    # the branch-side primitive, found by its definition; rules and the interpreter's model refer to it as `to_right`
    from .rules import common
    F.to_right_path = None
    F.to_right_path = common.find_to_right(F)
    if F.to_right_path:
        old = F.short_of.get(F.to_right_path)
        if old and old != "to_right":
            F.short.pop(old, None)
        F.short["to_right"] = F.to_right_path
        F.short_of[F.to_right_path] = "to_right"
    return F


_WORK = {}


def _worker(cfg):
    ctx, mod = _WORK["ctx"], _WORK["mod"]
    rep = Report(ctx.prop)
    try:
        mod.run_config(ctx, rep, cfg, ctx.facts[cfg])
    except Exception as ex:  # a crash of the rule code is a broken check, never a pass
        import traceback
        rep.bad("engine", cfg, type(ex).__name__, "rule code crashed on configuration %s: %s\n%s" % (cfg, ex, traceback.format_exc()[-1500:]),
                kind="unrecognised")
    return cfg, rep


def run_rules(ctx, mod, rep, jobs=16):
    """run mod.run_config for every configuration (forked workers), merge, then mod.finalize"""
    import multiprocessing as mp
    if hasattr(mod, "declare"):
        mod.declare(rep)
    cfgs = list(ctx.facts)
    _WORK["ctx"], _WORK["mod"] = ctx, mod
    if len(cfgs) > 1 and jobs > 1:
        with mp.get_context("fork").Pool(min(jobs, len(cfgs))) as pool:
            results = pool.map(_worker, cfgs)
    else:
        results = [_worker(c) for c in cfgs]
    for cfg, r in results:
        rep.instances += r.instances
        rep.matched |= r.matched
        for f in r.findings:
            if not any(g.key == f.key for g in rep.findings):
                rep.findings.append(f)
        for s_ in r.samples:
            if len(rep.samples) < 12:
                rep.samples.append(s_)
        for k, v in r.counts.items():
            rep.counts[k] = rep.counts.get(k, 0) + v if not k.endswith(")") else v
        rep.canaries += r.canaries
    if hasattr(mod, "finalize"):
        try:
            mod.finalize(ctx, rep)
        except Exception as ex:
            import traceback
            rep.bad("engine", "finalize", type(ex).__name__, "rule code crashed: %s\n%s" % (ex, traceback.format_exc()[-1500:]), kind="unrecognised")


FIXPROP = {"D1": ["C19"], "D2": ["C04", "C20"], "D4": ["C16"], "D5": ["C12"], "D6": ["C08"], "D7": ["C14"], "D8": ["C18"]}


def mutant_corpus(prop, rep):
    """thorough tier: every source-level mutant of this property (selftest/, seeded/, reverted fixes) is applied to a scratch
    copy of /repo and must make the quick check report a violation.  Results are evidence about the checker, not about
    /repo: a mutant that is not caught is printed and counted, it is not a VIOLATION of the property."""
    import glob
    import subprocess
    from concurrent.futures import ThreadPoolExecutor
    items = []
    for d in sorted(glob.glob(os.path.join(VERIF, "selftest", prop.lower() + "-*.patch"))):
        items.append((os.path.basename(d)[:-6], d, False))
    for d in sorted(glob.glob(os.path.join(VERIF, "seeded", prop + "-*", "patch.diff"))):
        items.append(("seeded/" + os.path.basename(os.path.dirname(d)), d, False))
    for name, props in FIXPROP.items():
        if prop in props:
            items.append(("revert-fix/" + name, os.path.join(VERIF, "fixes", name + ".patch"), True))
    expected_miss = set()
    mp = os.path.join(VERIF, "selftest", "EXPECTED_MISSES.json")
    if os.path.exists(mp):
        expected_miss = set(json.load(open(mp)).get(prop, []))

    def run(it):
        name, patch, rev = it
        cmd = [os.path.join(VERIF, "tools", "mutant.py")] + (["-R"] if rev else []) + [patch, prop]
        r = subprocess.run(cmd, cwd=VERIF, stdout=subprocess.PIPE, stderr=subprocess.STDOUT, text=True)
        if "PATCH DOES NOT APPLY" in r.stdout:
            return name, "skipped"
        return name, "caught" if r.returncode == 0 else "missed"
    with ThreadPoolExecutor(max_workers=3) as ex:
        res = list(ex.map(run, items))
    rep.counts["mutants_run"] = len([r for r in res if r[1] != "skipped"])
    rep.counts["mutants_caught"] = len([r for r in res if r[1] == "caught"])
    rep.counts["mutants_skipped"] = len([r for r in res if r[1] == "skipped"])
    rep.counts["mutants"] = {n: ("missed (expected: clause not decided)" if st == "missed" and n in expected_miss else st) for n, st in res}
    for n, st in res:
        if st == "missed" and n not in expected_miss:
            print("MUTANT-NOT-CAUGHT: %s is not reported by the %s check (self-test of the checker; not a violation of the property)" % (n, prop))


def opts_key(opts):
    if not opts:
        return {}
    return {k: v for k, v in opts.items() if isinstance(v, (int, str, bool))}


def load_known():
    if not os.path.exists(KNOWN):
        return {"open": [], "fixed": []}
    with open(KNOWN) as f:
        return json.load(f)


def finish(ctx, rep, t0, level_text, assumptions, write_evidence=True):
    """print VIOLATION / KNOWN-FINDING lines, write evidence, return exit code"""
    known = load_known()
    open_keys = {e["key"]: e for e in known.get("open", []) if e.get("property") == rep.prop}
    violations = []
    known_hit = []
    for f in rep.findings:
        if f.kind == "violation" and f.key in open_keys:
            known_hit.append(f)
        else:
            violations.append(f)
    os.makedirs(os.path.join(EVIDENCE, "replay"), exist_ok=True)
    for f in known_hit:
        print("KNOWN-FINDING: property=%s %s — %s" % (rep.prop, f.key, open_keys[f.key].get("what", f.message)))
    for f in violations:
        h = hashlib.sha1(f.key.encode()).hexdigest()[:12]
        rp = os.path.join(EVIDENCE if write_evidence else os.environ.get("TMPDIR", "/var/tmp"), "replay" if write_evidence else "ptreplay", "%s-%s.json" % (rep.prop, h))
        os.makedirs(os.path.dirname(rp), exist_ok=True)
        with open(rp, "w") as fh:
            json.dump({"property": rep.prop, "finding": f.to_json(), "tier": ctx.tier,
                       "how_to_replay": "./check --replay %s" % rp}, fh, indent=1)
        label = {"violation": "VIOLATION", "unrecognised": "UNRECOGNISED", "floor": "FLOOR", "vacuous": "VACUOUS"}[f.kind]
        print("%s: %s" % (label, f.message))
        print("    rule=%s where=%s detail=%s" % (f.rule, f.where, f.detail))
        print("VIOLATION property=%s replay=%s" % (rep.prop, rp))
    ev = {
        "property_id": rep.prop,
        "tier": ctx.tier,
        "seed": ctx.seed,
        "level": "other",
        "coverage": {
            "explanation": level_text,
            "evaluations": max(rep.instances, 1),
            "distinct_nontrivial": len(rep.matched),
            "rule": "one evaluation = one rule instance (rule × function/site × abstract input class); "
                    "distinct_nontrivial = distinct instances that matched at least one site of the source and held",
            "samples": rep.samples or [{"note": "no instance sampled"}],
            "exhaustive": True,
            "rules": rep.rules,
            "counts": rep.counts,
            "configurations": [i["config"] for i in ctx.infos],
            "extractor_runs": ctx.infos,
            "canaries": [{"name": n, "fired": fd} for n, fd in rep.canaries],
            "known_findings_reported": [f.key for f in known_hit],
            "trusted_base": ["rustc nightly front end (THIR, typeck, MIR build)", "pt/models.py std model",
                             "prefix relation oracle (C17 assumed)"],
        },
        "assumptions": assumptions,
        "wall_s": round(time.time() - t0, 2),
        "violations": len(violations),
    }
    if write_evidence:
        with open(os.path.join(EVIDENCE, "%s.json" % rep.prop), "w") as fh:
            json.dump(ev, fh, indent=1, default=str)
    n_ok = len(rep.matched)
    print("%s %s: %d rule instances evaluated, %d distinct held, %d findings (%d known), %d configs, %.1fs" % (
        rep.prop, ctx.tier, rep.instances, n_ok, len(rep.findings), len(known_hit), len(ctx.facts), time.time() - t0))
    return 1 if violations else 0
