//! Minimal JSON value + writer (the driver has no cargo dependencies).

#[derive(Clone, Debug)]
pub enum J {
    Null,
    Bool(bool),
    Num(i64),
    Str(String),
    Arr(Vec<J>),
    Obj(Vec<(String, J)>),
}

impl J {
    pub fn s(x: impl Into<String>) -> J {
        J::Str(x.into())
    }
    pub fn obj() -> J {
        J::Obj(Vec::new())
    }
    pub fn set(mut self, k: &str, v: J) -> J {
        if let J::Obj(ref mut o) = self {
            o.push((k.to_string(), v));
        }
        self
    }
    pub fn put(&mut self, k: &str, v: J) {
        if let J::Obj(ref mut o) = self {
            o.push((k.to_string(), v));
        }
    }
    pub fn opt(v: Option<J>) -> J {
        v.unwrap_or(J::Null)
    }
    pub fn write(&self, out: &mut String) {
        match self {
            J::Null => out.push_str("null"),
            J::Bool(b) => out.push_str(if *b { "true" } else { "false" }),
            J::Num(n) => out.push_str(&n.to_string()),
            J::Str(s) => write_str(s, out),
            J::Arr(a) => {
                out.push('[');
                for (i, x) in a.iter().enumerate() {
                    if i > 0 {
                        out.push(',');
                    }
                    x.write(out);
                }
                out.push(']');
            }
            J::Obj(o) => {
                out.push('{');
                for (i, (k, v)) in o.iter().enumerate() {
                    if i > 0 {
                        out.push(',');
                    }
                    write_str(k, out);
                    out.push(':');
                    v.write(out);
                }
                out.push('}');
            }
        }
    }
}

fn write_str(s: &str, out: &mut String) {
    out.push('"');
    for c in s.chars() {
        match c {
            '"' => out.push_str("\\\""),
            '\\' => out.push_str("\\\\"),
            '\n' => out.push_str("\\n"),
            '\r' => out.push_str("\\r"),
            '\t' => out.push_str("\\t"),
            c if (c as u32) < 0x20 => out.push_str(&format!("\\u{:04x}", c as u32)),
            c => out.push(c),
        }
    }
    out.push('"');
}
