//! Per-body MIR site inventory: the sugar-independent cross-check for the tree-level rules.

use crate::json::J;
use crate::Cx;
use rustc_hir::def::DefKind;
use rustc_hir::def_id::LocalDefId;
use rustc_middle::mir::{self, Operand, Place, ProjectionElem, Rvalue, StatementKind, TerminatorKind};
use rustc_middle::ty::{self, TyCtxt};

fn span_line(tcx: TyCtxt<'_>, sp: rustc_span::Span) -> (i64, bool) {
    let sm = tcx.sess.source_map();
    let src = sp.source_callsite();
    let local_macro = sp.from_expansion()
        && sp.ctxt().outer_expn_data().macro_def_id.map(|d| d.is_local()).unwrap_or(false);
    (sm.lookup_char_pos(src.lo()).line as i64, sp.from_expansion() && !local_macro)
}

/// fields of crate-local ADTs that a place projects through: [(adt, variant, field)], plus
/// whether the place goes through a raw-pointer deref.
fn place_fields<'tcx>(
    cx: &Cx<'tcx>,
    body: &mir::Body<'tcx>,
    place: &Place<'tcx>,
) -> (Vec<(String, String)>, bool) {
    let tcx = cx.tcx;
    let mut out = Vec::new();
    let mut raw = false;
    let mut pty = mir::PlaceTy::from_ty(body.local_decls[place.local].ty);
    for elem in place.projection.iter() {
        match elem {
            ProjectionElem::Field(f, _) => {
                if let ty::Adt(def, _) = pty.ty.kind() {
                    let v = match pty.variant_index {
                        Some(vi) => def.variant(vi),
                        None if !def.is_enum() => def.non_enum_variant(),
                        None => {
                            pty = pty.projection_ty(tcx, elem);
                            continue;
                        }
                    };
                    if def.did().is_local() {
                        out.push((cx.path(def.did()), v.fields[f].name.to_string()));
                    }
                }
            }
            ProjectionElem::Deref => {
                if pty.ty.is_raw_ptr() {
                    raw = true;
                }
            }
            _ => {}
        }
        pty = pty.projection_ty(tcx, elem);
    }
    (out, raw)
}

pub fn mir_facts<'tcx>(cx: &mut Cx<'tcx>, def: LocalDefId) -> J {
    let tcx = cx.tcx;
    if !matches!(tcx.def_kind(def), DefKind::Fn | DefKind::AssocFn | DefKind::Closure) {
        return J::Null;
    }
    let body = tcx.optimized_mir(def.to_def_id());
    let owner = tcx.typeck_root_def_id(def.to_def_id()).expect_local();
    let env = ty::TypingEnv::post_analysis(tcx, owner);
    let mut asserts = Vec::new();
    let mut calls = Vec::new();
    let mut writes = Vec::new();
    let mut casts = Vec::new();
    let mut raw_derefs = 0i64;
    let record_write = |cx: &Cx<'tcx>, place: &Place<'tcx>, how: &str, sp: rustc_span::Span, writes: &mut Vec<J>, raw_derefs: &mut i64| {
        let (fields, raw) = place_fields(cx, body, place);
        if raw {
            *raw_derefs += 1;
        }
        if let Some((adt, field)) = fields.last() {
            let (line, exp) = span_line(cx.tcx, sp);
            let chain: Vec<J> =
                fields.iter().map(|(a, f)| J::s(format!("{}.{}", a, f))).collect();
            writes.push(
                J::obj()
                    .set("adt", J::s(adt.clone()))
                    .set("field", J::s(field.clone()))
                    .set("how", J::s(how))
                    .set("chain", J::Arr(chain))
                    .set("line", J::Num(line))
                    .set("exp", J::Bool(exp)),
            );
        }
    };
    for bb in body.basic_blocks.iter() {
        for st in bb.statements.iter() {
            if let StatementKind::Assign(b) = &st.kind {
                let (place, rv) = &**b;
                record_write(cx, place, "assign", st.source_info.span, &mut writes, &mut raw_derefs);
                match rv {
                    Rvalue::Ref(_, bk, p) => {
                        if matches!(bk, mir::BorrowKind::Mut { .. }) {
                            record_write(cx, p, "mut_borrow", st.source_info.span, &mut writes, &mut raw_derefs);
                        } else {
                            let (_, raw) = place_fields(cx, body, p);
                            if raw {
                                raw_derefs += 1;
                            }
                        }
                    }
                    Rvalue::RawPtr(k, p) => {
                        if matches!(k, mir::RawPtrKind::Mut) {
                            record_write(cx, p, "raw_mut", st.source_info.span, &mut writes, &mut raw_derefs);
                        }
                    }
                    Rvalue::Cast(kind, op, to) => {
                        let from = op.ty(&body.local_decls, tcx);
                        let (line, exp) = span_line(tcx, st.source_info.span);
                        casts.push(
                            J::obj()
                                .set("kind", J::s(format!("{:?}", kind)))
                                .set("from", J::s(ty::print::with_no_trimmed_paths!(format!("{}", from))))
                                .set("to", J::s(ty::print::with_no_trimmed_paths!(format!("{}", to))))
                                .set("line", J::Num(line))
                                .set("exp", J::Bool(exp)),
                        );
                    }
                    _ => {}
                }
            }
        }
        let Some(term) = &bb.terminator else { continue };
        match &term.kind {
            TerminatorKind::Assert { msg, .. } => {
                let (line, exp) = span_line(tcx, term.source_info.span);
                let kind = match &**msg {
                    mir::AssertKind::Overflow(op, _, _) => format!("Overflow({:?})", op),
                    mir::AssertKind::BoundsCheck { .. } => "BoundsCheck".to_string(),
                    mir::AssertKind::OverflowNeg(_) => "OverflowNeg".to_string(),
                    mir::AssertKind::DivisionByZero(_) => "DivisionByZero".to_string(),
                    mir::AssertKind::RemainderByZero(_) => "RemainderByZero".to_string(),
                    mir::AssertKind::MisalignedPointerDereference { .. } => "Misaligned".to_string(),
                    mir::AssertKind::NullPointerDereference => "NullDeref".to_string(),
                    other => format!("{:?}", other).chars().take(40).collect(),
                };
                let operands = match &**msg {
                    mir::AssertKind::Overflow(_, a, b) => format!("{:?}, {:?}", a, b),
                    _ => String::new(),
                };
                asserts.push(
                    J::obj()
                        .set("kind", J::s(kind))
                        .set("operands", J::s(operands))
                        .set("line", J::Num(line))
                        .set("exp", J::Bool(exp)),
                );
            }
            TerminatorKind::Call { func, destination, .. } => {
                let (line, exp) = span_line(tcx, term.source_info.span);
                let mut o = J::obj().set("line", J::Num(line)).set("exp", J::Bool(exp));
                let fty = func.ty(&body.local_decls, tcx);
                if let ty::FnDef(did, args) = *fty.kind() {
                    o.put("callee", J::s(cx.path(did)));
                    o.put("local", J::Bool(did.is_local()));
                    if matches!(tcx.def_kind(did), DefKind::Fn | DefKind::AssocFn) {
                        let sig = tcx.fn_sig(did).skip_binder();
                        o.put("unsafe", J::Bool(matches!(sig.safety(), rustc_hir::Safety::Unsafe)));
                        if tcx.trait_of_assoc(did).is_some() {
                            if let Ok(Some(inst)) = ty::Instance::try_resolve(tcx, env, did, args) {
                                o.put("resolved", J::s(cx.path(inst.def_id())));
                            }
                        }
                    }
                } else {
                    o.put("callee", J::Null);
                    o.put("indirect", J::s(ty::print::with_no_trimmed_paths!(format!("{}", fty))));
                }
                let _ = destination;
                calls.push(o);
                if let Operand::Copy(_) | Operand::Move(_) = func {}
            }
            _ => {}
        }
    }
    J::obj()
        .set("asserts", J::Arr(asserts))
        .set("calls", J::Arr(calls))
        .set("writes", J::Arr(writes))
        .set("casts", J::Arr(casts))
        .set("raw_derefs", J::Num(raw_derefs))
}
