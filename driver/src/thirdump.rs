//! THIR → JSON.  `Scope`, `Use`, `NeverToAny` and the type ascriptions are transparent.

use crate::json::J;
use crate::Cx;
use rustc_hir::def::DefKind;
use rustc_hir::def_id::LocalDefId;
use rustc_middle::thir::*;
use rustc_middle::ty::{self, Ty};

pub fn dump_body<'tcx>(cx: &mut Cx<'tcx>, def: LocalDefId) -> J {
    let tcx = cx.tcx;
    let Ok((thir, root)) = tcx.thir_body(def) else {
        return J::obj().set("error", J::s("thir_body failed"));
    };
    let thir = thir.borrow();
    let owner = tcx.typeck_root_def_id(def.to_def_id()).expect_local();
    let mut d = Dumper { cx, thir: &thir, owner };
    let mut params = Vec::new();
    for p in thir.params.iter() {
        let mut o = J::obj();
        let ti = d.cx.ty(p.ty);
        o.put("ty", J::Num(ti as i64));
        if let Some(sk) = p.self_kind {
            o.put("self_kind", J::s(format!("{:?}", sk)));
        }
        if let Some(pat) = &p.pat {
            o.put("pat", d.pat(pat));
        }
        params.push(o);
    }
    let body = d.expr(root);
    J::obj().set("params", J::Arr(params)).set("body", body)
}

struct Dumper<'a, 'b, 'tcx> {
    cx: &'a mut Cx<'tcx>,
    thir: &'b Thir<'tcx>,
    owner: LocalDefId,
}

impl<'a, 'b, 'tcx> Dumper<'a, 'b, 'tcx> {
    fn tyi(&mut self, t: Ty<'tcx>) -> J {
        J::Num(self.cx.ty(t) as i64)
    }

    fn node(&mut self, k: &str, e: &Expr<'tcx>) -> J {
        let mut o = J::obj().set("k", J::s(k));
        let t = self.tyi(e.ty);
        o.put("ty", t);
        self.cx.span_json(e.span, &mut o);
        o
    }

    fn var(&mut self, id: LocalVarId) -> (String, i64) {
        let name = self.cx.tcx.hir_name(id.0).to_string();
        (name, id.0.local_id.as_u32() as i64)
    }

    fn field_name(&self, lhs_ty: Ty<'tcx>, variant: rustc_abi::VariantIdx, f: rustc_abi::FieldIdx) -> (Option<String>, Option<String>, String) {
        match lhs_ty.kind() {
            ty::Adt(def, _) => {
                let v = def.variant(variant);
                let fname = v.fields[f].name.to_string();
                (Some(self.cx.path(def.did())), Some(v.name.to_string()), fname)
            }
            _ => (None, None, format!("{}", f.as_u32())),
        }
    }

    fn fn_ref(&mut self, e: &Expr<'tcx>) -> Option<J> {
        let tcx = self.cx.tcx;
        if let ty::FnDef(did, args) = *e.ty.kind() {
            let mut o = self.node("FnRef", e);
            o.put("path", J::s(self.cx.path(did)));
            o.put("name", J::s(tcx.item_name(did).to_string()));
            o.put("local", J::Bool(did.is_local()));
            let a = self.cx.args_json(args);
            o.put("gargs", a);
            let dk = tcx.def_kind(did);
            o.put("defkind", J::s(format!("{:?}", dk)));
            if matches!(dk, DefKind::Ctor(..)) {
                // constructor used as a function value
                let parent = tcx.parent(did);
                o.put("ctor_of", J::s(self.cx.path(parent)));
            }
            if matches!(dk, DefKind::Fn | DefKind::AssocFn) {
                let sig = tcx.fn_sig(did).skip_binder();
                o.put("unsafe", J::Bool(matches!(sig.safety(), rustc_hir::Safety::Unsafe)));
                if let Some(tr) = tcx.trait_of_assoc(did) {
                    o.put("trait", J::s(self.cx.path(tr)));
                    // self type of the trait call
                    if let Some(st) = args.types().next() {
                        let i = self.tyi(st);
                        o.put("self_ty", i);
                    }
                }
                if let Some(imp) = tcx.impl_of_assoc(did) {
                    o.put("impl", J::s(self.cx.path(imp)));
                    let st = tcx.type_of(imp).instantiate_identity().skip_norm_wip();
                    let i = self.tyi(st);
                    o.put("impl_self_ty", i);
                    if let Some(tr) = tcx.impl_opt_trait_ref(imp) {
                        let tr = tr.instantiate_identity().skip_norm_wip();
                        o.put("impl_trait", J::s(self.cx.path(tr.def_id)));
                    }
                }
            }
            return Some(o);
        }
        None
    }

    fn resolve_call(&mut self, owner: LocalDefId, fun: &Expr<'tcx>, o: &mut J) {
        let tcx = self.cx.tcx;
        if let ty::FnDef(did, args) = *fun.ty.kind() {
            if tcx.trait_of_assoc(did).is_some() {
                let env = ty::TypingEnv::post_analysis(tcx, owner);
                if matches!(tcx.def_kind(did), DefKind::Fn | DefKind::AssocFn) {
                    if let Ok(Some(inst)) = ty::Instance::try_resolve(tcx, env, did, args) {
                        let rd = inst.def_id();
                        o.put("resolved", J::s(self.cx.path(rd)));
                        o.put("resolved_local", J::Bool(rd.is_local()));
                    }
                }
            }
        }
    }

    fn block(&mut self, b: BlockId) -> J {
        let blk = &self.thir[b];
        let mut o = J::obj().set("k", J::s("Block"));
        let safety = match blk.safety_mode {
            BlockSafety::Safe => "safe",
            BlockSafety::BuiltinUnsafe => "builtin_unsafe",
            BlockSafety::ExplicitUnsafe(_) => "unsafe",
        };
        o.put("safety", J::s(safety));
        self.cx.span_json(blk.span, &mut o);
        let mut stmts = Vec::new();
        for &s in blk.stmts.iter() {
            let st = &self.thir[s];
            match &st.kind {
                StmtKind::Expr { expr, .. } => {
                    stmts.push(J::obj().set("k", J::s("ExprStmt")).set("e", self.expr(*expr)));
                }
                StmtKind::Let { pattern, initializer, else_block, span, .. } => {
                    let mut l = J::obj().set("k", J::s("Let"));
                    self.cx.span_json(*span, &mut l);
                    l.put("pat", self.pat(pattern));
                    l.put("init", J::opt(initializer.map(|e| self.expr(e))));
                    l.put("else", J::opt(else_block.map(|b| self.block(b))));
                    stmts.push(l);
                }
            }
        }
        o.put("stmts", J::Arr(stmts));
        o.put("expr", J::opt(blk.expr.map(|e| self.expr(e))));
        o
    }

    fn expr(&mut self, id: ExprId) -> J {
        self.expr_h(id, None)
    }

    fn expr_h(&mut self, id: ExprId, hid: Option<i64>) -> J {
        let e = &self.thir[id];
        let tcx = self.cx.tcx;
        let mut o = match &e.kind {
            ExprKind::Scope { value, hir_id, .. } => {
                return self.expr_h(*value, Some(hir_id.local_id.as_u32() as i64));
            }
            ExprKind::Use { source }
            | ExprKind::NeverToAny { source }
            | ExprKind::PlaceTypeAscription { source, .. }
            | ExprKind::ValueTypeAscription { source, .. } => {
                return self.expr_h(*source, hid);
            }
            ExprKind::If { cond, then, else_opt, .. } => {
                let mut o = self.node("If", e);
                o.put("cond", self.expr(*cond));
                o.put("then", self.expr(*then));
                o.put("else", J::opt(else_opt.map(|x| self.expr(x))));
                o
            }
            ExprKind::Call { fun, args, from_hir_call, .. } => {
                let mut o = self.node("Call", e);
                let f = &self.thir[*fun];
                // peel scopes around the callee
                let mut fe = f;
                while let ExprKind::Scope { value, .. } = &fe.kind {
                    fe = &self.thir[*value];
                }
                o.put("fun", self.expr(*fun));
                o.put("from_hir_call", J::Bool(*from_hir_call));
                let owner = self.owner;
                self.resolve_call(owner, fe, &mut o);
                let a: Vec<J> = args.iter().map(|x| self.expr(*x)).collect();
                o.put("args", J::Arr(a));
                o
            }
            ExprKind::ByUse { expr, .. } => {
                return self.expr_h(*expr, hid);
            }
            ExprKind::Deref { arg } => {
                let mut o = self.node("Deref", e);
                o.put("e", self.expr(*arg));
                o
            }
            ExprKind::Binary { op, lhs, rhs } => {
                let mut o = self.node("Binary", e);
                o.put("op", J::s(format!("{:?}", op)));
                o.put("l", self.expr(*lhs));
                o.put("r", self.expr(*rhs));
                o
            }
            ExprKind::LogicalOp { op, lhs, rhs } => {
                let mut o = self.node("Logical", e);
                o.put("op", J::s(format!("{:?}", op)));
                o.put("l", self.expr(*lhs));
                o.put("r", self.expr(*rhs));
                o
            }
            ExprKind::Unary { op, arg } => {
                let mut o = self.node("Unary", e);
                o.put("op", J::s(format!("{:?}", op)));
                o.put("e", self.expr(*arg));
                o
            }
            ExprKind::Cast { source } => {
                let mut o = self.node("Cast", e);
                o.put("e", self.expr(*source));
                o
            }
            ExprKind::PointerCoercion { cast, source, .. } => {
                let mut o = self.node("Coerce", e);
                o.put("cast", J::s(format!("{:?}", cast)));
                o.put("e", self.expr(*source));
                o
            }
            ExprKind::Loop { body } => {
                let mut o = self.node("Loop", e);
                o.put("body", self.expr(*body));
                o
            }
            ExprKind::Let { expr, pat } => {
                let mut o = self.node("LetCond", e);
                o.put("e", self.expr(*expr));
                o.put("pat", self.pat(pat));
                o
            }
            ExprKind::Match { scrutinee, arms, match_source } => {
                let mut o = self.node("Match", e);
                o.put("source", J::s(format!("{:?}", match_source)));
                o.put("scrut", self.expr(*scrutinee));
                let mut av = Vec::new();
                for &a in arms.iter() {
                    let arm = &self.thir[a];
                    let mut ao = J::obj();
                    self.cx.span_json(arm.span, &mut ao);
                    ao.put("pat", self.pat(&arm.pattern));
                    ao.put("guard", J::opt(arm.guard.map(|g| self.expr(g))));
                    ao.put("body", self.expr(arm.body));
                    av.push(ao);
                }
                o.put("arms", J::Arr(av));
                o
            }
            ExprKind::Block { block } => {
                let mut o = self.block(*block);
                let t = self.tyi(e.ty);
                o.put("ty", t);
                if self.thir[*block].targeted_by_break {
                    o.put("break_target", J::Bool(true));
                }
                o
            }
            ExprKind::Assign { lhs, rhs } => {
                let mut o = self.node("Assign", e);
                o.put("l", self.expr(*lhs));
                o.put("r", self.expr(*rhs));
                o
            }
            ExprKind::AssignOp { op, lhs, rhs } => {
                let mut o = self.node("AssignOp", e);
                o.put("op", J::s(format!("{:?}", op)));
                o.put("l", self.expr(*lhs));
                o.put("r", self.expr(*rhs));
                o
            }
            ExprKind::Field { lhs, variant_index, name } => {
                let mut o = self.node("Field", e);
                let lt = self.thir[*lhs].ty;
                let (adt, variant, fname) = self.field_name(lt, *variant_index, *name);
                o.put("adt", J::opt(adt.map(J::Str)));
                o.put("variant", J::opt(variant.map(J::Str)));
                o.put("field", J::s(fname));
                o.put("base", self.expr(*lhs));
                o
            }
            ExprKind::Index { lhs, index } => {
                let mut o = self.node("Index", e);
                o.put("base", self.expr(*lhs));
                o.put("idx", self.expr(*index));
                o
            }
            ExprKind::VarRef { id } => {
                let mut o = self.node("Var", e);
                let (n, i) = self.var(*id);
                o.put("name", J::s(n));
                o.put("id", J::Num(i));
                o
            }
            ExprKind::UpvarRef { var_hir_id, .. } => {
                let mut o = self.node("Var", e);
                let (n, i) = self.var(*var_hir_id);
                o.put("name", J::s(n));
                o.put("id", J::Num(i));
                o.put("upvar", J::Bool(true));
                o
            }
            ExprKind::Borrow { borrow_kind, arg } => {
                let mut o = self.node("Borrow", e);
                let m = matches!(borrow_kind, rustc_middle::mir::BorrowKind::Mut { .. });
                o.put("mut", J::Bool(m));
                o.put("e", self.expr(*arg));
                o
            }
            ExprKind::RawBorrow { mutability, arg } => {
                let mut o = self.node("RawBorrow", e);
                o.put("mut", J::Bool(mutability.is_mut()));
                o.put("e", self.expr(*arg));
                o
            }
            ExprKind::Break { label, value } => {
                let mut o = self.node("Break", e);
                o.put("label", J::Num(label.local_id.as_u32() as i64));
                o.put("value", J::opt(value.map(|v| self.expr(v))));
                o
            }
            ExprKind::Continue { label } => {
                let mut o = self.node("Continue", e);
                o.put("label", J::Num(label.local_id.as_u32() as i64));
                o
            }
            ExprKind::Return { value } => {
                let mut o = self.node("Return", e);
                o.put("value", J::opt(value.map(|v| self.expr(v))));
                o
            }
            ExprKind::Repeat { value, .. } => {
                let mut o = self.node("Repeat", e);
                o.put("e", self.expr(*value));
                o
            }
            ExprKind::Array { fields } => {
                let mut o = self.node("Array", e);
                let a: Vec<J> = fields.iter().map(|x| self.expr(*x)).collect();
                o.put("elems", J::Arr(a));
                o
            }
            ExprKind::Tuple { fields } => {
                let mut o = self.node("Tuple", e);
                let a: Vec<J> = fields.iter().map(|x| self.expr(*x)).collect();
                o.put("elems", J::Arr(a));
                o
            }
            ExprKind::Adt(adt) => {
                let mut o = self.node("Adt", e);
                o.put("adt", J::s(self.cx.path(adt.adt_def.did())));
                let v = adt.adt_def.variant(adt.variant_index);
                o.put("variant", J::s(v.name.to_string()));
                let mut fs = Vec::new();
                for f in adt.fields.iter() {
                    fs.push(
                        J::obj()
                            .set("name", J::s(v.fields[f.name].name.to_string()))
                            .set("e", self.expr(f.expr)),
                    );
                }
                o.put("fields", J::Arr(fs));
                match &adt.base {
                    AdtExprBase::Base(fru) => o.put("base", self.expr(fru.base)),
                    AdtExprBase::DefaultFields(_) => o.put("base", J::s("default_fields")),
                    AdtExprBase::None => {}
                }
                o
            }
            ExprKind::Closure(c) => {
                let mut o = self.node("Closure", e);
                o.put("path", J::s(self.cx.path(c.closure_id.to_def_id())));
                let ups: Vec<J> = c.upvars.iter().map(|u| self.expr(*u)).collect();
                o.put("upvars", J::Arr(ups));
                o
            }
            ExprKind::Literal { lit, neg } => {
                let mut o = self.node("Lit", e);
                use rustc_ast::LitKind;
                match lit.node {
                    LitKind::Int(v, _) => {
                        let v = v.get() as i128;
                        let v = if *neg { -v } else { v };
                        if v >= i64::MIN as i128 && v <= i64::MAX as i128 {
                            o.put("int", J::Num(v as i64));
                        } else {
                            o.put("bigint", J::s(v.to_string()));
                        }
                    }
                    LitKind::Bool(b) => o.put("bool", J::Bool(b)),
                    LitKind::Str(s, _) => o.put("str", J::s(s.to_string())),
                    ref other => o.put("other", J::s(format!("{:?}", other))),
                }
                o
            }
            ExprKind::NonHirLiteral { lit, .. } => {
                let mut o = self.node("Lit", e);
                o.put("other", J::s(format!("{:?}", lit)));
                o
            }
            ExprKind::ZstLiteral { .. } => {
                if let Some(o) = self.fn_ref(e) {
                    o
                } else {
                    self.node("Zst", e)
                }
            }
            ExprKind::NamedConst { def_id, args, .. } => {
                let mut o = self.node("Const", e);
                o.put("path", J::s(self.cx.path(*def_id)));
                let a = self.cx.args_json(args);
                o.put("gargs", a);
                o
            }
            ExprKind::ConstBlock { did, .. } => {
                let mut o = self.node("ConstBlock", e);
                o.put("path", J::s(self.cx.path(*did)));
                o
            }
            ExprKind::StaticRef { def_id, .. } => {
                let mut o = self.node("Static", e);
                o.put("path", J::s(self.cx.path(*def_id)));
                o
            }
            other => {
                let mut o = self.node("Other", e);
                let s = format!("{:?}", other);
                let short: String = s.chars().take(60).collect();
                o.put("dbg", J::s(short));
                o
            }
        };
        let _ = tcx;
        if let Some(h) = hid {
            o.put("hid", J::Num(h));
        }
        o
    }

    fn pat(&mut self, p: &Pat<'tcx>) -> J {
        let mut o = J::obj();
        let t = self.tyi(p.ty);
        o.put("ty", t);
        match &p.kind {
            PatKind::Wild | PatKind::Missing => o.put("k", J::s("Wild")),
            PatKind::Binding { name, mode, var, subpattern, .. } => {
                o.put("k", J::s("Bind"));
                o.put("name", J::s(name.to_string()));
                o.put("id", J::Num(var.0.local_id.as_u32() as i64));
                let by_ref = match mode.0 {
                    rustc_hir::ByRef::No => "no",
                    rustc_hir::ByRef::Yes(_, m) => {
                        if m.is_mut() {
                            "mut"
                        } else {
                            "shared"
                        }
                    }
                };
                o.put("by_ref", J::s(by_ref));
                o.put("mutbl", J::Bool(mode.1.is_mut()));
                if let Some(sp) = subpattern {
                    o.put("sub", self.pat(sp));
                }
            }
            PatKind::Variant { adt_def, variant_index, subpatterns, .. } => {
                o.put("k", J::s("Variant"));
                o.put("adt", J::s(self.cx.path(adt_def.did())));
                let v = adt_def.variant(*variant_index);
                o.put("variant", J::s(v.name.to_string()));
                let mut subs = Vec::new();
                for fp in subpatterns {
                    subs.push(
                        J::obj()
                            .set("field", J::s(v.fields[fp.field].name.to_string()))
                            .set("pat", self.pat(&fp.pattern)),
                    );
                }
                o.put("subs", J::Arr(subs));
                o.put("nfields", J::Num(v.fields.len() as i64));
            }
            PatKind::Leaf { subpatterns } => {
                o.put("k", J::s("Leaf"));
                let mut subs = Vec::new();
                for fp in subpatterns {
                    let fname = match p.ty.kind() {
                        ty::Adt(def, _) if !def.is_enum() => {
                            def.non_enum_variant().fields[fp.field].name.to_string()
                        }
                        _ => format!("{}", fp.field.as_u32()),
                    };
                    subs.push(
                        J::obj().set("field", J::s(fname)).set("pat", self.pat(&fp.pattern)),
                    );
                }
                o.put("subs", J::Arr(subs));
                if let ty::Adt(def, _) = p.ty.kind() {
                    o.put("adt", J::s(self.cx.path(def.did())));
                }
            }
            PatKind::Deref { subpattern, .. } => {
                o.put("k", J::s("Deref"));
                o.put("sub", self.pat(subpattern));
            }
            PatKind::DerefPattern { subpattern, .. } => {
                o.put("k", J::s("Deref"));
                o.put("sub", self.pat(subpattern));
            }
            PatKind::Constant { value } => {
                o.put("k", J::s("Const"));
                o.put("value", J::s(format!("{}", value)));
            }
            PatKind::Or { pats } => {
                o.put("k", J::s("Or"));
                let v: Vec<J> = pats.iter().map(|x| self.pat(x)).collect();
                o.put("pats", J::Arr(v));
            }
            other => {
                o.put("k", J::s("OtherPat"));
                let s = format!("{:?}", other);
                let short: String = s.chars().take(60).collect();
                o.put("dbg", J::s(short));
            }
        }
        o
    }
}

