//! ptfacts — fact extractor for the prefix-trie static checks.
//!
//! Used as RUSTC_WORKSPACE_WRAPPER under `cargo +nightly check`.  For the crate named in
//! PTFACTS_CRATE (default `prefix_trie`) it writes one JSON file (PTFACTS_OUT) with
//!   * items:  ADTs (fields, variances), impls (headers, bounds), fns (signatures),
//!   * bodies: the THIR tree of every body (typed, method calls resolved),
//!   * mir:    per-fn site inventory (asserts, calls, field writes, casts, raw derefs).
//! Every other crate is compiled by plain rustc behaviour.
#![feature(rustc_private)]

extern crate rustc_abi;
extern crate rustc_ast;
extern crate rustc_driver;
extern crate rustc_hir;
extern crate rustc_interface;
extern crate rustc_middle;
extern crate rustc_session;
extern crate rustc_span;

mod json;
mod mirfacts;
mod thirdump;

use json::J;
use rustc_driver::Compilation;
use rustc_hir::def::DefKind;
use rustc_hir::def_id::{DefId, LocalDefId};
use rustc_interface::interface;
use rustc_middle::ty::{self, Ty, TyCtxt};
use std::collections::HashMap;

pub struct Cx<'tcx> {
    pub tcx: TyCtxt<'tcx>,
    pub types: Vec<J>,
    pub type_ix: HashMap<Ty<'tcx>, usize>,
}

pub fn path_of(tcx: TyCtxt<'_>, did: DefId) -> String {
    ty::print::with_no_trimmed_paths!(ty::print::with_resolve_crate_name!(tcx.def_path_str(did)))
}

impl<'tcx> Cx<'tcx> {
    pub fn path(&self, did: DefId) -> String {
        path_of(self.tcx, did)
    }

    pub fn region(&self, r: ty::Region<'tcx>) -> String {
        ty::print::with_no_trimmed_paths!(format!("{:?}", r))
    }

    pub fn args_json(&mut self, args: ty::GenericArgsRef<'tcx>) -> J {
        let mut v = Vec::new();
        for a in args.iter() {
            match a.kind() {
                ty::GenericArgKind::Type(t) => v.push(J::Num(self.ty(t) as i64)),
                ty::GenericArgKind::Lifetime(r) => v.push(J::Str(self.region(r))),
                ty::GenericArgKind::Const(c) => v.push(J::Str(format!("const {:?}", c))),
            }
        }
        J::Arr(v)
    }

    /// intern a type, return its index in the type table
    pub fn ty(&mut self, t: Ty<'tcx>) -> usize {
        if let Some(&i) = self.type_ix.get(&t) {
            return i;
        }
        // reserve the slot first (recursive types do not occur, but nested ones do)
        let i = self.types.len();
        self.types.push(J::Null);
        self.type_ix.insert(t, i);
        let s = ty::print::with_no_trimmed_paths!(format!("{}", t));
        let mut o = J::obj().set("s", J::s(s));
        match *t.kind() {
            ty::Bool | ty::Char | ty::Int(_) | ty::Uint(_) | ty::Float(_) | ty::Str => {
                o.put("t", J::s("prim"));
            }
            ty::Never => o.put("t", J::s("never")),
            ty::Adt(def, args) => {
                o.put("t", J::s("adt"));
                o.put("p", J::s(self.path(def.did())));
                o.put("local", J::Bool(def.did().is_local()));
                let a = self.args_json(args);
                o.put("a", a);
            }
            ty::Ref(r, inner, m) => {
                o.put("t", J::s("ref"));
                o.put("m", J::Bool(m.is_mut()));
                o.put("r", J::s(self.region(r)));
                let i = self.ty(inner);
                o.put("i", J::Num(i as i64));
            }
            ty::RawPtr(inner, m) => {
                o.put("t", J::s("ptr"));
                o.put("m", J::Bool(m.is_mut()));
                let i = self.ty(inner);
                o.put("i", J::Num(i as i64));
            }
            ty::Tuple(ts) => {
                o.put("t", J::s("tuple"));
                let v: Vec<J> = ts.iter().map(|x| J::Num(self.ty(x) as i64)).collect();
                o.put("a", J::Arr(v));
            }
            ty::Slice(inner) => {
                o.put("t", J::s("slice"));
                let i = self.ty(inner);
                o.put("i", J::Num(i as i64));
            }
            ty::Array(inner, _) => {
                o.put("t", J::s("array"));
                let i = self.ty(inner);
                o.put("i", J::Num(i as i64));
            }
            ty::Param(p) => {
                o.put("t", J::s("param"));
                o.put("n", J::s(p.name.to_string()));
            }
            ty::FnDef(did, args) => {
                o.put("t", J::s("fndef"));
                o.put("p", J::s(self.path(did)));
                let a = self.args_json(args);
                o.put("a", a);
            }
            ty::Closure(did, _) => {
                o.put("t", J::s("closure"));
                o.put("p", J::s(self.path(did)));
            }
            ty::FnPtr(..) => o.put("t", J::s("fnptr")),
            ty::Dynamic(..) => o.put("t", J::s("dyn")),
            ty::Alias(..) => o.put("t", J::s("alias")),
            _ => o.put("t", J::s("other")),
        }
        self.types[i] = o;
        i
    }

    pub fn span_json(&self, sp: rustc_span::Span, o: &mut J) {
        let sm = self.tcx.sess.source_map();
        // call-site span for the position (so macro-generated nodes point into the crate)
        let src = sp.source_callsite();
        let lo = sm.lookup_char_pos(src.lo());
        let hi = sm.lookup_char_pos(src.hi());
        o.put("line", J::Num(lo.line as i64));
        o.put("col", J::Num(lo.col.0 as i64));
        o.put("eline", J::Num(hi.line as i64));
        // code written in a macro_rules! of this crate is ordinary code of the crate; only expansions of foreign macros,
        // derives and compiler desugarings are marked
        let local_macro = sp.from_expansion()
            && sp.ctxt().outer_expn_data().macro_def_id.map(|d| d.is_local()).unwrap_or(false);
        if local_macro {
            o.put("exp_local", J::Bool(true));
        }
        if sp.from_expansion() && !local_macro {
            let mut names = Vec::new();
            for ed in sp.macro_backtrace() {
                names.push(J::s(ed.kind.descr()));
            }
            if names.is_empty() {
                names.push(J::s(sp.ctxt().outer_expn_data().kind.descr()));
            }
            o.put("exp", J::Arr(names));
        }
    }

    pub fn file_of(&self, sp: rustc_span::Span) -> String {
        let sm = self.tcx.sess.source_map();
        let src = sp.source_callsite();
        let lo = sm.lookup_char_pos(src.lo());
        format!("{}", lo.file.name.prefer_local_unconditionally())
    }
}

struct Callbacks {
    out: String,
    config: String,
}

impl rustc_driver::Callbacks for Callbacks {
    fn config(&mut self, config: &mut interface::Config) {
        config.opts.unstable_opts.no_steal_thir = true;
    }

    fn after_analysis<'tcx>(
        &mut self,
        _compiler: &interface::Compiler,
        tcx: TyCtxt<'tcx>,
    ) -> Compilation {
        let mut cx = Cx { tcx, types: Vec::new(), type_ix: HashMap::new() };
        let mut root = J::obj()
            .set("config", J::s(self.config.clone()))
            .set("crate", J::s(tcx.crate_name(rustc_hir::def_id::LOCAL_CRATE).to_string()));

        let adts = items_adts(&mut cx);
        let impls = items_impls(&mut cx);
        let mut fns = Vec::new();
        let mut bodies = Vec::new();
        let owners: Vec<LocalDefId> = tcx.hir_body_owners().collect();
        for def in owners {
            let kind = tcx.def_kind(def);
            let is_fn = matches!(kind, DefKind::Fn | DefKind::AssocFn);
            let is_closure = matches!(kind, DefKind::Closure);
            if !(is_fn || is_closure) {
                continue;
            }
            if is_fn {
                fns.push(fn_item(&mut cx, def));
            }
            let mut b = J::obj()
                .set("path", J::s(cx.path(def.to_def_id())))
                .set("kind", J::s(if is_fn { "fn" } else { "closure" }));
            b.put("thir", thirdump::dump_body(&mut cx, def));
            if is_fn || is_closure {
                b.put("mir", mirfacts::mir_facts(&mut cx, def));
            }
            bodies.push(b);
        }
        root.put("adts", J::Arr(adts));
        root.put("impls", J::Arr(impls));
        root.put("fns", J::Arr(fns));
        root.put("bodies", J::Arr(bodies));
        root.put("types", J::Arr(std::mem::take(&mut cx.types)));
        let mut s = String::new();
        root.write(&mut s);
        std::fs::write(&self.out, s).expect("ptfacts: cannot write output");
        Compilation::Continue
    }
}

fn vis_str(tcx: TyCtxt<'_>, did: DefId) -> String {
    match tcx.visibility(did) {
        ty::Visibility::Public => "pub".to_string(),
        ty::Visibility::Restricted(m) => {
            if m.is_crate_root() {
                "crate".to_string()
            } else {
                format!("in {}", path_of(tcx, m))
            }
        }
    }
}

fn generics_json<'tcx>(cx: &mut Cx<'tcx>, did: DefId) -> (J, J) {
    let tcx = cx.tcx;
    let g = tcx.generics_of(did);
    let mut params = Vec::new();
    let mut cur = Some(g);
    let mut chain = Vec::new();
    while let Some(gg) = cur {
        chain.push(gg);
        cur = gg.parent.map(|p| tcx.generics_of(p));
    }
    chain.reverse();
    for gg in chain {
        for p in &gg.own_params {
            let k = match p.kind {
                ty::GenericParamDefKind::Lifetime => "lifetime",
                ty::GenericParamDefKind::Type { .. } => "type",
                ty::GenericParamDefKind::Const { .. } => "const",
            };
            params.push(J::obj().set("name", J::s(p.name.to_string())).set("kind", J::s(k)));
        }
    }
    let mut preds = Vec::new();
    let ps = tcx.predicates_of(did).instantiate_identity(tcx);
    for p in ps.predicates.iter() {
        let p = p.skip_norm_wip();
        let s = ty::print::with_no_trimmed_paths!(format!("{}", p));
        let mut o = J::obj().set("s", J::s(s));
        if let Some(tp) = p.as_trait_clause() {
            let tp = tp.skip_binder();
            o.put("trait", J::s(cx.path(tp.trait_ref.def_id)));
            let st = tp.trait_ref.self_ty();
            let i = cx.ty(st);
            o.put("self", J::Num(i as i64));
        }
        preds.push(o);
    }
    (J::Arr(params), J::Arr(preds))
}

fn items_adts<'tcx>(cx: &mut Cx<'tcx>) -> Vec<J> {
    let tcx = cx.tcx;
    let mut out = Vec::new();
    let ids: Vec<_> = tcx.hir_free_items().collect();
    for id in ids {
        let def = id.owner_id.def_id;
        let kind = tcx.def_kind(def);
        if !matches!(kind, DefKind::Struct | DefKind::Enum | DefKind::Union) {
            continue;
        }
        let did = def.to_def_id();
        let adt = tcx.adt_def(did);
        let mut o = J::obj()
            .set("path", J::s(cx.path(did)))
            .set("kind", J::s(format!("{:?}", kind)))
            .set("vis", J::s(vis_str(tcx, did)));
        let (params, preds) = generics_json(cx, did);
        o.put("generics", params);
        o.put("preds", preds);
        let vars: Vec<J> =
            tcx.variances_of(did).iter().map(|v| J::s(format!("{:?}", v))).collect();
        o.put("variances", J::Arr(vars));
        let mut variants = Vec::new();
        for v in adt.variants().iter() {
            let mut fields = Vec::new();
            for f in v.fields.iter() {
                let fty = tcx.type_of(f.did).instantiate_identity().skip_norm_wip();
                let i = cx.ty(fty);
                fields.push(
                    J::obj()
                        .set("name", J::s(f.name.to_string()))
                        .set("ty", J::Num(i as i64))
                        .set("vis", J::s(vis_str(tcx, f.did))),
                );
            }
            variants.push(
                J::obj().set("name", J::s(v.name.to_string())).set("fields", J::Arr(fields)),
            );
        }
        o.put("variants", J::Arr(variants));
        let sp = tcx.def_span(did);
        o.put("file", J::s(cx.file_of(sp)));
        cx.span_json(sp, &mut o);
        out.push(o);
    }
    out
}

fn items_impls<'tcx>(cx: &mut Cx<'tcx>) -> Vec<J> {
    let tcx = cx.tcx;
    let mut out = Vec::new();
    let ids: Vec<_> = tcx.hir_free_items().collect();
    for id in ids {
        let def = id.owner_id.def_id;
        let kind = tcx.def_kind(def);
        let did = def.to_def_id();
        match kind {
            DefKind::Impl { of_trait } => {
                let self_ty = tcx.type_of(did).instantiate_identity().skip_norm_wip();
                let i = cx.ty(self_ty);
                let mut o = J::obj()
                    .set("path", J::s(cx.path(did)))
                    .set("self_ty", J::Num(i as i64))
                    .set("auto_derived", J::Bool(tcx.is_automatically_derived(did)));
                if of_trait {
                    let h = tcx.impl_trait_header(did);
                    let tr = h.trait_ref.instantiate_identity().skip_norm_wip();
                    o.put("trait", J::s(cx.path(tr.def_id)));
                    o.put(
                        "trait_ref",
                        J::s(ty::print::with_no_trimmed_paths!(format!("{}", tr))),
                    );
                    o.put("unsafe", J::Bool(matches!(h.safety, rustc_hir::Safety::Unsafe)));
                    o.put("negative", J::Bool(matches!(h.polarity, ty::ImplPolarity::Negative)));
                } else {
                    o.put("trait", J::Null);
                    o.put("unsafe", J::Bool(false));
                }
                let (params, preds) = generics_json(cx, did);
                o.put("generics", params);
                o.put("preds", preds);
                let mut fns = Vec::new();
                for it in tcx.associated_items(did).in_definition_order() {
                    fns.push(
                        J::obj()
                            .set("name", J::s(it.name().to_string()))
                            .set("path", J::s(cx.path(it.def_id)))
                            .set("kind", J::s(format!("{:?}", it.kind.as_def_kind()))),
                    );
                }
                o.put("items", J::Arr(fns));
                let sp = tcx.def_span(did);
                o.put("file", J::s(cx.file_of(sp)));
                cx.span_json(sp, &mut o);
                out.push(o);
            }
            DefKind::Trait => {
                let mut o = J::obj()
                    .set("path", J::s(cx.path(did)))
                    .set("is_trait_decl", J::Bool(true))
                    .set("vis", J::s(vis_str(tcx, did)));
                let mut fns = Vec::new();
                for it in tcx.associated_items(did).in_definition_order() {
                    fns.push(
                        J::obj()
                            .set("name", J::s(it.name().to_string()))
                            .set("path", J::s(cx.path(it.def_id)))
                            .set("kind", J::s(format!("{:?}", it.kind.as_def_kind())))
                            .set("has_default", J::Bool(it.defaultness(tcx).has_value())),
                    );
                }
                o.put("items", J::Arr(fns));
                out.push(o);
            }
            _ => {}
        }
    }
    out
}

fn fn_item<'tcx>(cx: &mut Cx<'tcx>, def: LocalDefId) -> J {
    let tcx = cx.tcx;
    let did = def.to_def_id();
    let mut o = J::obj().set("path", J::s(cx.path(did))).set("vis", J::s(vis_str(tcx, did)));
    let ev = tcx.effective_visibilities(());
    o.put("reachable", J::Bool(ev.is_reachable(def)));
    o.put("exported", J::Bool(ev.is_exported(def)));
    let sig = tcx.fn_sig(did).instantiate_identity().skip_norm_wip();
    o.put("unsafe", J::Bool(matches!(sig.safety(), rustc_hir::Safety::Unsafe)));
    o.put("sig", J::s(ty::print::with_no_trimmed_paths!(format!("{}", sig))));
    let sig = sig.skip_binder();
    let ins: Vec<J> = sig.inputs().iter().map(|t| J::Num(cx.ty(*t) as i64)).collect();
    o.put("inputs", J::Arr(ins));
    let out_i = cx.ty(sig.output());
    o.put("output", J::Num(out_i as i64));
    let (params, preds) = generics_json(cx, did);
    o.put("generics", params);
    o.put("preds", preds);
    if let Some(ai) = tcx.opt_associated_item(did) {
        o.put("assoc", J::Bool(true));
        o.put("has_self", J::Bool(ai.is_method()));
        if let Some(imp) = tcx.impl_of_assoc(did) {
            o.put("impl", J::s(cx.path(imp)));
            let st = tcx.type_of(imp).instantiate_identity().skip_norm_wip();
            let i = cx.ty(st);
            o.put("impl_self_ty", J::Num(i as i64));
            if let Some(tr) = tcx.impl_opt_trait_ref(imp) {
                let tr = tr.instantiate_identity().skip_norm_wip();
                o.put("impl_trait", J::s(cx.path(tr.def_id)));
            }
        }
        if let Some(tr) = tcx.trait_of_assoc(did) {
            o.put("trait_decl", J::s(cx.path(tr)));
        }
    }
    o.put("name", J::s(tcx.item_name(did).to_string()));
    // the module the item is written in (layering rules are stated over modules, not files)
    let m = tcx.parent_module_from_def_id(def);
    o.put("module", J::s(cx.path(m.to_def_id())));
    let sp = tcx.def_span(did);
    o.put("file", J::s(cx.file_of(sp)));
    let full = tcx.hir_span_with_body(tcx.local_def_id_to_hir_id(def));
    cx.span_json(full, &mut o);
    o
}

fn main() {
    let mut args: Vec<String> = std::env::args().collect();
    // RUSTC_WORKSPACE_WRAPPER: argv[1] is the path of the real rustc
    if args.len() > 1 && (args[1].ends_with("rustc") || args[1].contains("/rustc")) {
        args.remove(1);
    }
    let want = std::env::var("PTFACTS_CRATE").unwrap_or_else(|_| "prefix_trie".to_string());
    let mut crate_name = None;
    let mut is_test = false;
    let mut i = 0;
    while i < args.len() {
        if args[i] == "--crate-name" && i + 1 < args.len() {
            crate_name = Some(args[i + 1].clone());
        }
        if args[i] == "--test" {
            is_test = true;
        }
        i += 1;
    }
    let out = std::env::var("PTFACTS_OUT").ok();
    let ours = crate_name.as_deref() == Some(want.as_str()) && !is_test && out.is_some();
    if ours {
        let mut cb = Callbacks {
            out: out.unwrap(),
            config: std::env::var("PTFACTS_CONFIG").unwrap_or_else(|_| "default".to_string()),
        };
        rustc_driver::run_compiler(&args, &mut cb);
    } else {
        struct Plain;
        impl rustc_driver::Callbacks for Plain {}
        rustc_driver::run_compiler(&args, &mut Plain);
    }
}
