#!/usr/bin/env python3
"""Applies every behaviour-preserving refactoring (selftest/equiv-*.patch; each passes the 150 baseline tests) to a scratch copy and
runs all 20 checks: every check must exit 0 (no alarm on code where the property holds).  Writes selftest/EQUIV.md."""
import glob, os, subprocess, sys, re
V = os.path.dirname(os.path.dirname(os.path.abspath(__file__)))
ALL = ["C%02d" % i for i in range(1, 21)]
rows = []
bad = 0
for d in sorted(glob.glob(os.path.join(V, "selftest", "equiv-*.patch"))):
    r = subprocess.run([os.path.join(V, "tools", "mutant.py"), d] + ALL, cwd=V, stdout=subprocess.PIPE, stderr=subprocess.STDOUT, text=True)
    for l in r.stdout.splitlines():
        m = re.match(r"== (C\d+) on (.*): exit (\d+), (\d+) findings", l)
        if m:
            rows.append((os.path.basename(d), m.group(1), m.group(3)))
            bad += m.group(3) != "0"
            print(l, flush=True)
open(os.path.join(V, "selftest", "EQUIV.md"), "w").write("# Behaviour-preserving refactorings vs. checks (every entry must be `silent`)\n\n| patch | check | result |\n|---|---|---|\n" +
    "\n".join("| %s | %s | %s |" % (a, b, "silent" if c == "0" else "ALARM (exit %s)" % c) for a, b, c in rows) + "\n")
sys.exit(1 if bad else 0)
