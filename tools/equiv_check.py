#!/usr/bin/env python3
"""Applies every behaviour-preserving refactoring (selftest/equiv-*.patch; each passes the 150 baseline tests) to a scratch copy and
runs all 20 checks: every check must exit 0 (no alarm on code where the property holds).  Writes selftest/EQUIV.md.
   tools/equiv_check.py [-j N] [patch ...]"""
import glob, os, subprocess, sys, re
from concurrent.futures import ThreadPoolExecutor
V = os.path.dirname(os.path.dirname(os.path.abspath(__file__)))
ALL = ["C%02d" % i for i in range(1, 21)]
args = sys.argv[1:]
append = "--append" in args          # run the given patches and merge their rows into the existing EQUIV.md
if append:
    args.remove("--append")
jobs = 4
if "-j" in args:
    i = args.index("-j")
    jobs = int(args[i + 1])
    del args[i:i + 2]
patches = [os.path.abspath(a) for a in args] or sorted(glob.glob(os.path.join(V, "selftest", "equiv-*.patch")))


def run(d):
    r = subprocess.run([os.path.join(V, "tools", "mutant.py"), d] + ALL, cwd=V, stdout=subprocess.PIPE, stderr=subprocess.STDOUT, text=True)
    rows = []
    cur = None
    for l in r.stdout.splitlines():
        m = re.match(r"== (C\d+) on (.*): exit (\d+), (\d+) findings", l)
        if m:
            cur = [os.path.basename(d), m.group(1), m.group(3), ""]
            rows.append(cur)
            print(l, flush=True)
        elif cur is not None and cur[2] != "0" and not cur[3] and l.strip():
            cur[3] = l.strip()[:200]
            print("   ", cur[3], flush=True)
    return rows


with ThreadPoolExecutor(max_workers=jobs) as ex:
    rows = [r for rs in ex.map(run, patches) for r in rs]
bad = sum(1 for r in rows if r[2] != "0")
if append and args:
    md = os.path.join(V, "selftest", "EQUIV.md")
    old = open(md).read().splitlines() if os.path.exists(md) else []
    names = {os.path.basename(a) for a in args}
    keep = [l for l in old if not any(l.startswith("| %s |" % n) for n in names)]
    new = ["| %s | %s | %s |" % (a, b, "silent" if c == "0" else "ALARM (exit %s) %s" % (c, d)) for a, b, c, d in rows]
    open(md, "w").write("\n".join(keep + new) + "\n")
if not args:
    open(os.path.join(V, "selftest", "EQUIV.md"), "w").write(
        "# Behaviour-preserving refactorings vs. checks (every entry must be `silent`)\n\n"
        "`equiv-refactor-N`: written here; `equiv-agent-N`: written by independent sub-agents that saw only the repository "
        "(their notes: `equiv-agent-N.NOTES.md`).  Every patch passes the 150 baseline tests and the doc-tests.\n\n"
        "| patch | check | result |\n|---|---|---|\n" +
        "\n".join("| %s | %s | %s |" % (a, b, "silent" if c == "0" else "ALARM (exit %s) %s" % (c, d)) for a, b, c, d in rows) + "\n")
sys.exit(1 if bad else 0)
