#!/usr/bin/env python3
"""tools/verify_seed.py <seed dir with patch.diff, demo.rs, README.md> <name> <property>
Confirms a seeded change in a scratch worktree of /repo: clean+demo passes; patched: lib tests 150 pass,
all-features build ok, demo fails.  On success stores it as /verif/seeded/<name>/ with meta.json."""
import json, os, re, shutil, subprocess, sys
V = os.path.dirname(os.path.dirname(os.path.abspath(__file__)))
seed, name, prop = sys.argv[1:4]
wt = "/tmp/vs-" + name
env = dict(os.environ, CARGO_TARGET_DIR="/var/tmp/seed-target", CARGO_NET_OFFLINE="true")
def sh(cmd, cwd=wt, ok=None):
    r = subprocess.run(cmd, cwd=cwd, shell=True, env=env, stdout=subprocess.PIPE, stderr=subprocess.STDOUT, text=True)
    return r.returncode, r.stdout
subprocess.run("git -C /repo worktree remove --force %s" % wt, shell=True, stdout=subprocess.DEVNULL, stderr=subprocess.DEVNULL)
rc, out = sh("git -C /repo worktree add --detach %s HEAD -q" % wt, cwd="/")
assert rc == 0, out
ran = []
try:
    os.makedirs(wt + "/tests", exist_ok=True)
    shutil.copy(os.path.join(seed, "demo.rs"), wt + "/tests/seed_demo.rs")
    rc1, o1 = sh("cargo test --offline --test seed_demo 2>&1 | tail -5")
    clean_pass = "test result: ok" in o1
    ran.append(("clean: cargo test --offline --test seed_demo", o1.strip().splitlines()[-1] if o1.strip() else ""))
    rc, o = sh("git apply %s" % os.path.abspath(os.path.join(seed, "patch.diff")))
    assert rc == 0, "patch does not apply: " + o
    rc2, o2 = sh("cargo test --offline --lib 2>&1 | grep 'test result'")
    lib_ok = "150 passed; 0 failed" in o2
    ran.append(("patched: cargo test --offline --lib", o2.strip()))
    rc3, o3 = sh("cargo build --offline --all-features 2>&1 | tail -1")
    build_ok = rc3 == 0 and "Finished" in o3
    ran.append(("patched: cargo build --offline --all-features", o3.strip()))
    rc4, o4 = sh("cargo test --offline --test seed_demo 2>&1 | grep -E 'test result|FAILED|panicked' | head -5")
    demo_fails = "FAILED" in o4 or "failed" in o4
    ran.append(("patched: cargo test --offline --test seed_demo", o4.strip()[:400]))
    ok = clean_pass and lib_ok and build_ok and demo_fails
    print(name, "clean_pass", clean_pass, "lib_ok", lib_ok, "build_ok", build_ok, "demo_fails", demo_fails)
    if ok:
        dst = os.path.join(V, "seeded", name)
        os.makedirs(dst, exist_ok=True)
        for f in ("patch.diff", "demo.rs", "README.md"):
            if os.path.exists(os.path.join(seed, f)):
                shutil.copy(os.path.join(seed, f), os.path.join(dst, f))
        readme = open(os.path.join(seed, "README.md")).read() if os.path.exists(os.path.join(seed, "README.md")) else ""
        meta = {"id": name, "property": prop, "source": "independent sub-agent (given only the property text and a scratch worktree)",
                "needs_to_manifest": readme[:1500], "confirmed": {"clean_demo_passes": clean_pass, "baseline_150_pass_with_patch": lib_ok,
                "all_features_build_with_patch": build_ok, "demo_fails_with_patch": demo_fails}, "ran": ran, "caught_by": None}
        json.dump(meta, open(os.path.join(dst, "meta.json"), "w"), indent=1)
    else:
        for c, o in ran:
            print("  ", c, "->", o)
finally:
    subprocess.run("git -C /repo worktree remove --force %s" % wt, shell=True)
sys.exit(0 if ok else 1)
