#!/usr/bin/env python3
"""tools/mkmutant.py <name> <file> <old> <new> [<count>]  — make selftest/<name>.patch replacing text in a copy of /repo/<file>"""
import subprocess, sys, os, tempfile, shutil
name, file, old, new = sys.argv[1:5]
nth = int(sys.argv[5]) if len(sys.argv) > 5 else 0
src = open(os.path.join("/repo", file)).read()
if src.count(old) == 0:
    sys.exit("pattern not found")
if nth == 0 and src.count(old) != 1:
    sys.exit("pattern occurs %d times; give an index (1-based)" % src.count(old))
if nth:
    parts = src.split(old)
    src2 = old.join(parts[:nth]) + new + old.join(parts[nth:])
else:
    src2 = src.replace(old, new)
d = tempfile.mkdtemp()
try:
    os.makedirs(os.path.join(d, "a", os.path.dirname(file))); os.makedirs(os.path.join(d, "b", os.path.dirname(file)))
    open(os.path.join(d, "a", file), "w").write(open(os.path.join("/repo", file)).read())
    open(os.path.join(d, "b", file), "w").write(src2)
    r = subprocess.run(["diff", "-u", "a/" + file, "b/" + file], cwd=d, stdout=subprocess.PIPE, text=True)
    V = os.path.dirname(os.path.dirname(os.path.abspath(__file__)))
    open(os.path.join(V, "selftest", name + ".patch"), "w").write(r.stdout)
    print("wrote selftest/%s.patch (%d lines)" % (name, len(r.stdout.splitlines())))
finally:
    shutil.rmtree(d)
