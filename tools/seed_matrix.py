#!/usr/bin/env python3
"""Runs every confirmed seeded change (seeded/*/patch.diff), the selftest mutants and the reverted fixes against the checks
of their property (plus listed related checks) and writes seeded/MATRIX.json / MATRIX.md.   tools/seed_matrix.py [-j N] [--all] [--only <substring>]
--all: run every seed against all 20 checks (cross-detection matrix)."""
import json, os, subprocess, sys, glob, re
from concurrent.futures import ThreadPoolExecutor
V = os.path.dirname(os.path.dirname(os.path.abspath(__file__)))
ALL = ["C%02d" % i for i in range(1, 21)]
jobs = 4
allp = "--all" in sys.argv
if "-j" in sys.argv:
    jobs = int(sys.argv[sys.argv.index("-j") + 1])
RELATED = {"C03-b": ["C16"], "C15-a": ["C16"], "C01-a": ["C16"], "C10-b": ["C16"], "C15-b": ["C16"], "C11-a": ["C12"], "C13-a": ["C11"],
           "C13-b": ["C02"], "C19-b": ["C16"], "C04-a": ["C19"], "C18-a": ["C07"], "C20-b": ["C16"]}
items = []
for d in sorted(glob.glob(os.path.join(V, "seeded", "*", "patch.diff"))):
    name = os.path.basename(os.path.dirname(d))
    prop = name.split("-")[0]
    items.append((name, d, False, ALL if allp else [prop] + RELATED.get(name, [])))
for d in sorted(glob.glob(os.path.join(V, "selftest", "*.patch"))):
    name = os.path.basename(d)[:-6]
    if name.startswith("equiv-"):
        continue            # behaviour-preserving refactorings: every check must stay silent (tools/equiv_check.py)
    prop = name.split("-")[0].upper()
    items.append(("selftest:" + name, d, False, [prop]))
FIXPROP = {"D1": ["C19"], "D2": ["C04", "C20"], "D4": ["C16"], "D5": ["C12"], "D6": ["C08"], "D7": ["C14"], "D8": ["C18"]}
for d in sorted(glob.glob(os.path.join(V, "fixes", "D*.patch"))):
    name = os.path.basename(d)[:-6]
    items.append(("revert:" + name, d, True, FIXPROP[name]))

only = None
if "--only" in sys.argv:          # --only <substring>: run the matching items and merge their rows into the existing matrix
    only = sys.argv[sys.argv.index("--only") + 1]
    items = [it for it in items if only in it[0]]


def run(item):
    name, patch, rev, props = item
    cmd = [os.path.join(V, "tools", "mutant.py")] + (["-R"] if rev else []) + [patch] + props
    r = subprocess.run(cmd, cwd=V, stdout=subprocess.PIPE, stderr=subprocess.STDOUT, text=True)
    res = {}
    cur = None
    for l in r.stdout.splitlines():
        m = re.match(r"== (C\d+) on .*: exit (\d+), (\d+) findings", l)
        if m:
            cur = m.group(1)
            res[cur] = {"exit": int(m.group(2)), "findings": int(m.group(3)), "first": None}
        elif cur and res[cur]["first"] is None and l.strip().startswith(("VIOLATION:", "UNRECOGNISED:", "FLOOR:", "VACUOUS:")):
            res[cur]["first"] = l.strip()[:300]
    print(name, {k: v["exit"] for k, v in res.items()}, flush=True)
    return name, res

with ThreadPoolExecutor(max_workers=jobs) as ex:
    out = dict(ex.map(run, items))
if only is not None and os.path.exists(os.path.join(V, "seeded", "MATRIX.json")):
    new = out
    out = json.load(open(os.path.join(V, "seeded", "MATRIX.json")))
    out.update(new)
    out = dict(sorted(out.items(), key=lambda kv: (kv[0].startswith("revert:"), kv[0].startswith("selftest:"), kv[0])))
json.dump(out, open(os.path.join(V, "seeded", "MATRIX.json"), "w"), indent=1)
lines = ["# Seeded changes, self-test mutants and reverted fixes vs. checks", "",
         "exit 1 = the check reports a violation (caught); exit 0 = not caught by that check.", "",
         "| change | check | caught | first finding |", "|---|---|---|---|"]
for name, res in out.items():
    for c, v in res.items():
        kind = (v["first"] or "").split(":")[0]
        lines.append("| %s | %s | %s | %s |" % (name, c, "yes (%s)" % kind.lower() if v["exit"] == 1 else "NO", (v["first"] or "").replace("|", "/")[:160]))
open(os.path.join(V, "seeded", "MATRIX.md"), "w").write("\n".join(lines) + "\n")
# record in meta.json
for name, res in out.items():
    mp = os.path.join(V, "seeded", name, "meta.json")
    if os.path.exists(mp):
        m = json.load(open(mp))
        m["caught_by"] = sorted(c for c, v in res.items() if v["exit"] == 1)
        m["not_caught_by"] = sorted(c for c, v in res.items() if v["exit"] != 1)
        json.dump(m, open(mp, "w"), indent=1)
