#!/usr/bin/env python3
"""Run checks against a scratch copy of /repo with one patch applied (self-test of the rules).

  tools/mutant.py [-R] <patch> C16 [C04 ...]     apply (or reverse-apply) the patch, run the checks
The copy lives under /var/tmp and is removed afterwards; /repo is never touched and no evidence
file is written.  Exit status: 0 if every listed check reported a violation (the mutant is caught).
"""
import os, shutil, subprocess, sys, tempfile

V = os.path.dirname(os.path.dirname(os.path.abspath(__file__)))

def main():
    args = sys.argv[1:]
    rev = False
    if args and args[0] == "-R":
        rev = True
        args = args[1:]
    patch, props = args[0], args[1:]
    tmp = tempfile.mkdtemp(prefix="ptmut-", dir="/var/tmp")
    try:
        subprocess.check_call(["rsync", "-a", "--exclude", "target", "--exclude", ".git", "/repo/", tmp + "/"])
        cmd = ["patch", "-p1", "-s", "--no-backup-if-mismatch"] + (["-R"] if rev else []) + ["-i", os.path.abspath(patch)]
        r = subprocess.run(cmd, cwd=tmp, stdout=subprocess.PIPE, stderr=subprocess.STDOUT, text=True)
        if r.returncode != 0:
            print("PATCH DOES NOT APPLY:", r.stdout)
            return 2
        allcaught = True
        for pr in props:
            r = subprocess.run([os.path.join(V, "check"), pr, "--repo", tmp, "--no-evidence"], cwd=V,
                               stdout=subprocess.PIPE, stderr=subprocess.STDOUT, text=True)
            lines = [l for l in r.stdout.splitlines() if l.startswith(("VIOLATION:", "UNRECOGNISED:", "FLOOR:", "VACUOUS:"))]
            print("== %s on %s%s: exit %d, %d findings" % (pr, os.path.basename(patch), " (reversed)" if rev else "", r.returncode, len(lines)))
            for l in lines[:6]:
                print("   ", l[:260])
            if r.returncode == 0:
                allcaught = False
            if r.returncode not in (0, 1):
                print(r.stdout[-2000:])
        return 0 if allcaught else 1
    finally:
        shutil.rmtree(tmp, ignore_errors=True)

sys.exit(main())
