#!/usr/bin/env python3
"""Regenerates MANIFEST.json from the table below (kept in one place so it stays valid)."""
import json, os
V = os.path.dirname(os.path.dirname(os.path.abspath(__file__)))
BASE = "cd /repo && cargo nextest run --workspace --no-fail-fast --offline || cargo test --workspace --no-fail-fast --offline"

AI = "finite abstract interpretation of the typed tree (rustc THIR facts): every path of the anchored functions over lazily forked abstract inputs (value presence, links, prefix relations)"
TB = "trusted: rustc nightly front end (THIR/typeck/MIR), pt/models.py (std + arena + Prefix oracle models)"
CLAIMED = {
 # id: (technique, level text, level note, design ref)
 "C01": (AI + "; certificate walk: the answer / effect of each exact-match observer, mutator and Entry-API path must be justified by the facts its own path examined",
         "Per-step decision (not the induction over histories): observers return the tabulated projection of the query's node iff it holds a value and the absent answer only "
         "with a certificate of absence; insert / Entry API / remove / remove_keep_tree return the ordered-map answer and change exactly the query's node or create one node with the query and the given value; "
         "no slot leaves the tree with possibly live entries; no exported signature leaks &mut Option/Node/Table.",
         TB + "; assumes C15 (well-formed pre-state) and C17 (prefix algebra)", "DESIGN.md §6 C01"),
 "C02": (AI + "; certificate walk over the covering chain",
         "For every path of get_lpm/get_lpm_prefix/get_lpm_mut/PrefixSet::get_lpm: the answer is the deepest valued node of the chain of nodes covering the query, every chain node's value was examined, the end of the chain is certified, no effect. "
         "Value-less leftover nodes are ordinary abstract inputs, so shape independence is part of every path.",
         TB + "; assumes C15, C17", "DESIGN.md §6 C02"),
 "C04": (AI + ": presence/counter effect pairing on every path of every function whose MIR mutably uses Node::value or writes PrefixMap::count; handle typestate through the only constructor; bounded-exhaustive sub-trees for _retain",
         "Decides the inductive invariant count = #{nodes holding a value}: every path of every mutator changes both sides by the same "
         "amount (R04.1), borrowed OccupiedEntry handles keep their node valued (R04.2), freed slots are value-less (R04.3), "
         "len/is_empty read only the counter (R04.4), no exported signature leaks &mut Option/Node/Table (R04.5). Exhaustive over the "
         "abstract input classes of each function; not a proof of the whole-history statement beyond this induction step.",
         TB + "; D3 (TrieViewMut::remove/set) is an open known finding", "DESIGN.md §6 C04"),
 "C09": (AI + "; certificate walk; composite program cover(); next()×3",
         "get_spm*/set get_spm return the first valued node of the covering chain; the i-th next() of cover/cover_keys/cover_values/set cover on a fresh iterator returns the i-th valued chain node, then None (first 3 calls, descent depth 2 per call); unjustified answers are reported.",
         TB + "; assumes C15, C17; bounded: 3 calls, 2 descent steps per call", "DESIGN.md §6 C09"),
 "C12": (AI + "; certificate walk started at the view's own node for every relation between that node and the query",
         "find / find_exact / find_lpm of TrieView and TrieViewMut and view_at / view_mut_at: answer position agrees with the certificate walk for covering, covered and disjoint queries; failure hands back the original view; answers not backed by examined facts are reported.",
         TB + "; assumes C15, C17", "DESIGN.md §6 C12"),
 "C15": (AI + "; link audit against the relation closure and branch-side rules; canonical pre-state ⇒ canonical post-state",
         "Per step: every surviving link write has parent ⊋ child on the child's branch side (R15.1); root never freed/linked, prefixes only overwritten by an equal key (R15.2); insert / entry insertions / remove / bounded _retain keep touched nodes canonical from canonical pre-states (R15.3); value-only operations have no structural effect (R15.4). "
         "The theorem over histories (identical to a freshly built map) is not mechanised.",
         TB + "; assumes C17; _retain on bounded sub-trees (2 levels below the start node, with parent and grand-parent)", "DESIGN.md §6 C15"),
 "C16": (AI + "; slot graph replay (links / free list / fresh slots) on every path",
         "Partition invariant preserved per step: unlinked ⇒ freed exactly once or re-linked/queued; freed ⇒ not linked, nothing orphaned below; new_node grows only after free.pop()=None and overwrites all four fields of a recycled slot; clear resets arena, free list and root together; only tabulated functions push/pop/clear; nothing reachable from _retain allocates. The numeric bound is a corollary, not computed.",
         TB + "; tree-shaped pre-state; _retain on bounded sub-trees", "DESIGN.md §6 C16"),
}
NOT_YET = {}

def main():
    props = [json.loads(l) for l in open(os.path.join(V, "properties.jsonl"))]
    checks = []
    na = []
    for p in props:
        pid = p["id"]
        if pid in CLAIMED:
            tech, text, note, ref = CLAIMED[pid]
            checks.append({
                "property_id": pid,
                "quick_cmd": "./check %s --tier quick" % pid,
                "thorough_cmd": "./check %s --tier thorough" % pid,
                "evidence_file": "/verif/evidence/%s.json" % pid,
                "replay_cmd_template": "./check --replay {path}",
                "engine": "pt",
                "level_claimed": {"category": "other", "text": text, "design_ref": ref},
                "level_note": note,
                "technique": tech,
            })
        else:
            na.append({"property_id": pid, "reason": NOT_YET.get(pid, "check not built yet in this round (static rules planned in DESIGN.md §6); not claimed until it runs")})
    m = {
        "version": 1,
        "setup_cmd": "cd /verif/driver && CARGO_NET_OFFLINE=true cargo build --offline",
        "hooks": {"guard": "prefix_trie_verif", "enable": "none needed: the checks read rustc's THIR/MIR of the unmodified library (no source hook)",
                  "baseline_off_cmd": BASE, "source_commits": [], "add_only": True},
        "engines": [{"name": "pt", "path": "/verif/pt", "serves_properties": [c["property_id"] for c in checks],
                     "kind_free_text": "static analysis: rustc_private fact extractor (driver/) + Python rule engine (queries, path/typestate analysis, finite abstract interpreter, compile-fail witnesses)"}],
        "checks": checks,
        "not_applicable": na,
        "notes": "All checks are static: `cargo +nightly check` with the fact-extracting rustc driver, then rules over the facts. No test of /repo is run by any check. Fix commits in /repo: see known_findings.json.",
    }
    json.dump(m, open(os.path.join(V, "MANIFEST.json"), "w"), indent=1)
    print("claimed", len(checks), "not applicable", len(na))

main()
