#!/usr/bin/env python3
"""Regenerates MANIFEST.json from the table below (kept in one place so it stays valid)."""
import json, os
V = os.path.dirname(os.path.dirname(os.path.abspath(__file__)))
BASE = "cd /repo && cargo nextest run --workspace --no-fail-fast --offline || cargo test --workspace --no-fail-fast --offline"

AI = "finite abstract interpretation of the typed tree (rustc THIR facts): every path of the anchored functions over lazily forked abstract inputs (value presence, links, prefix relations)"
TB = "trusted: rustc nightly front end (THIR/typeck/MIR), pt/models.py (std + arena + Prefix oracle models)"
CLAIMED = {
 # id: (technique, level text, level note, design ref)
 "C01": (AI + "; certificate walk: the answer / effect of each exact-match observer, mutator and Entry-API path must be justified by the facts its own path examined",
         "Per-step decision (not the induction over histories): observers return the tabulated projection of the query's node iff it holds a value and the absent answer only "
         "with a certificate of absence; insert / Entry API / remove / remove_keep_tree return the ordered-map answer and change exactly the query's node or create one node with the query and the given value; "
         "no slot leaves the tree with possibly live entries; no exported signature leaks &mut Option/Node/Table.",
         TB + "; assumes C15 (well-formed pre-state) and C17 (prefix algebra)", "DESIGN.md §6 C01"),
 "C02": (AI + "; certificate walk over the covering chain",
         "For every path of get_lpm/get_lpm_prefix/get_lpm_mut/PrefixSet::get_lpm: the answer is the deepest valued node of the chain of nodes covering the query, every chain node's value was examined, the end of the chain is certified, no effect. "
         "Value-less leftover nodes are ordinary abstract inputs, so shape independence is part of every path.",
         TB + "; assumes C15, C17", "DESIGN.md §6 C02"),
 "C04": (AI + ": presence/counter effect pairing on every path of every function whose MIR mutably uses Node::value or writes PrefixMap::count; handle typestate through the only constructor; bounded-exhaustive sub-trees for _retain",
         "Decides the inductive invariant count = #{nodes holding a value}: every path of every mutator changes both sides by the same "
         "amount (R04.1), borrowed OccupiedEntry handles keep their node valued (R04.2), freed slots are value-less (R04.3), "
         "len/is_empty read only the counter (R04.4), no exported signature leaks &mut Option/Node/Table (R04.5). Exhaustive over the "
         "abstract input classes of each function; not a proof of the whole-history statement beyond this induction step.",
         TB + "; D3 (TrieViewMut::remove/set) is an open known finding", "DESIGN.md §6 C04"),
 "C09": (AI + "; certificate walk; composite program cover(); next()×3",
         "get_spm*/set get_spm return the first valued node of the covering chain; the i-th next() of cover/cover_keys/cover_values/set cover on a fresh iterator returns the i-th valued chain node, then None (first 3 calls, descent depth 2 per call); unjustified answers are reported.",
         TB + "; assumes C15, C17; bounded: 3 calls, 2 descent steps per call", "DESIGN.md §6 C09"),
 "C12": (AI + "; certificate walk started at the view's own node for every relation between that node and the query",
         "find / find_exact / find_lpm of TrieView and TrieViewMut and view_at / view_mut_at: answer position agrees with the certificate walk for covering, covered and disjoint queries; failure hands back the original view; answers not backed by examined facts are reported.",
         TB + "; assumes C15, C17", "DESIGN.md §6 C12"),
 "C15": (AI + "; link audit against the relation closure and branch-side rules; canonical pre-state ⇒ canonical post-state",
         "Per step: every surviving link write has parent ⊋ child on the child's branch side (R15.1); root never freed/linked, prefixes only overwritten by an equal key (R15.2); insert / entry insertions / remove / bounded _retain keep touched nodes canonical from canonical pre-states (R15.3); value-only operations have no structural effect (R15.4). "
         "The theorem over histories (identical to a freshly built map) is not mechanised.",
         TB + "; assumes C17; _retain on bounded sub-trees (2 levels below the start node, with parent and grand-parent)", "DESIGN.md §6 C15"),
 "C16": (AI + "; slot graph replay (links / free list / fresh slots) on every path",
         "Partition invariant preserved per step: unlinked ⇒ freed exactly once or re-linked/queued; freed ⇒ not linked, nothing orphaned below; new_node grows only after free.pop()=None and overwrites all four fields of a recycled slot; clear resets arena, free list and root together; only tabulated functions push/pop/clear; nothing reachable from _retain allocates. The numeric bound is a corollary, not computed.",
         TB + "; tree-shaped pre-state; _retain on bounded sub-trees", "DESIGN.md §6 C16"),
}
CLAIMED.update({
 "C03": (AI + "; one step of every stack walker / wrapper on a one-entry stack; constructor start lists; tree-ness of the links under every structural mutator",
         "Per step: a walker pushes exactly [right child, left child] of the popped node and yields the projection of that node iff it holds a value (prefix and value of the same node), returns None on an empty stack; "
         "every whole-map/set/view constructor starts on the right table with [root]/[view node]; clones are derived or copy table and stack; no iterator overrides a provided method (fold, nth, count, ...) other than by delegating to next / an inner iterator; the structural mutators never link a slot twice or leave a freed slot linked. The induction over the traversal is not mechanised.",
         TB + "; assumes C15/C16 for 'exactly once'", "DESIGN.md §6 C03"),
 "C05": (AI + "; every arm of Union/UnionMut::next and both constructors compared with the specification table (Appendix B) over the facts the path examined",
         "Per arm and abstract input class: entries pushed and their order (pair classification, one-sided descent keeping the sibling on the correct end, right before left), item emitted (tag from value presence, values and key of the paired nodes), initial stack for any two view positions; decisions without an examined fact are reported; independently of the tables, every node still to be visited is in exactly one pushed entry; no provided iterator method is overridden other than by delegation. Induction over the traversal not mechanised.",
         TB + "; assumes C15, C17", "DESIGN.md §6 C05, Appendix B"),
 "C06": (AI + "; arms Both/FirstL/FirstR (role names) of Intersection(Mut)::next and constructors against the specification table",
         "Per arm: prune of non-overlapping pairs, one-sided descent to the child on the other operand's side, emission only in Both iff both valued with both values; initial stack for any two view positions (disjoint sub-views start empty).",
         TB + "; assumes C15, C17", "DESIGN.md §6 C06, Appendix B"),
 "C07": (AI + "; arms of Difference, DifferenceMut, CoveringDifference, CoveringDifferenceMut and constructors against the specification table",
         "Per arm: classification, one-sided descents, emission of the left value iff selected, covering prune (nothing pushed or emitted once the right node of Both/FirstR holds a value, right value consulted nowhere else); initial stacks for any two view positions.",
         TB + "; assumes C15, C17", "DESIGN.md §6 C07, Appendix B"),
 "C08": (AI + "; LPM annotations of every pushed entry / emitted item / initial entry compared with the specification (own value of a paired node, else inherited)",
         "Inductive invariant 'annotation = deepest valued X-node on the path to the entry', checked per arm of Union, Difference, DifferenceMut and for the constructors (nothing inherited at the start); emitted items report the popped entry's annotation of the other side.",
         TB + "; assumes C15, C17; compared where the structure (C05/C07) agrees", "DESIGN.md §6 C08"),
 "C10": (AI + "; certificate walk for the covered sub-tree; slot-graph replay for remove_children; bounded-exhaustive sub-trees for retain",
         "children*/set children: iterator over the table starting at the root of the sub-tree the selector covers; remove_children detaches exactly that sub-tree (zero-length → clear) and empties/frees only its slots; retain: predicate once per entry with its own prefix and value, post-order, value removed iff false, no live slot lost.",
         TB + "; assumes C15, C17; retain on sub-trees of <= 2 levels below the start node (and from the root), no value-less leaves below it", "DESIGN.md §6 C10"),
 "C11": (AI + "; table B.5 on every path of the navigation / accessor functions for real and virtual positions; find rule of C12 for view_at",
         "left/right/has_left/has_right/split, prefix/value/prefix_value(+_mut), set/remove, view()/view_mut() constructors, view() of a mutable view, and view_at/view_mut_at/find positions.",
         TB + "; assumes C15, C17; the existence clause for canonical tries is not re-derived", "DESIGN.md §6 C11"),
 "C13": (AI + "; every mutable traversal held against the specification of its read-only twin; no-side-effect scan of all their paths",
         "Mutable set operations (arms + constructors), IterMut/ValuesMut steps and constructors, get_mut, get_lpm_mut, children_mut, value_mut/prefix_value_mut follow the read-only rule with &mut in the value position of the same node; none of them changes presence, prefixes, links, free list or arena.",
         TB + "; assumes C15, C17; visibility to later reads = the reference points into the node", "DESIGN.md §6 C13"),
 "C14": ("compile-fail witnesses with compiling twins (rustc, against the .rmeta of the current tree) + inventory / variance / unsafe-impl queries over the type-checked program + single-visit check on the interpreted *_mut steps",
         "43 aliasing / thread-safety client programs are rejected with the expected error code on the marked line (twins compile), 4 intended patterns compile; every type holding &Table from which get_mut is reachable has its Send and Clone witnesses, is built only from exclusive receivers, is invariant in its value types; the only unsafe auto-trait impls are Table's with P,T: Send/Sync; get_mut is applied only to the popped entry's own index per table.",
         "trusted: rustc borrow checker / auto traits; assumes C15 for single visit; the schedule clause (concurrent = sequential) and aliasing-model UB are not decided", "DESIGN.md §6 C14, Appendix C"),
 "C17": ("abstract interpretation of every function of the prefix module and of the branch-side function with foreign arithmetic as uninterpreted functions and min / comparisons as ordering facts; trace of every evaluated shift / arithmetic operation / integer cast, covering the syntactic inventory of such sites",
         "Decided: the boundary-safety clause ('no operation panics or overflows for bit indices 0..=255 and lengths 0..=width'); the LENGTH clause of longest_common_prefix for the generic definition and every override (on every path the constructed length is <= both lengths, <= leading_zeros(xor of the two representations) and equal to one of them, by order closure of the path's own facts); from_repr_len passes its length (tuple type: also its representation) through. NOT decided: reflexivity / antisymmetry / transitivity of contains, the representation part, symmetry and coverage of longest_common_prefix, is_bit_set = i-th bit, from_repr_len masking, agreement of the per-type overrides with the generic definitions — bit-vector identities out of reach for this technique (seeded change C17-r4a is consequently not detected).",
         "assumes shipped representations <= 128 bits and foreign constructors accepting len <= width", "DESIGN.md §6 C17, §9"),
 "C18": ("who-may-call query on Prefix::repr/from_repr_len and P-bounds + " + AI + " for prefix writes and reported prefixes",
         "Trie code never reads a key's raw representation; the stored prefix of an existing node is written exactly by the inserting/replacing calls (always, with the caller's prefix) and by nothing else; a node created for a new key (fresh or recycled slot) holds the caller's representation; observers, Entry::key and every set-operation item report the stored prefix of a node that holds the reported value.",
         TB + "; assumes C17 (mask/eq/contains ignore host bits); 'most recent call' is the per-step fact", "DESIGN.md §6 C18"),
 "C19": (AI + " with sequence-combinator models (Iterator::eq / zip / all), clone and serde models",
         "eq of maps and sets is Iterator::eq over both whole walkers (or count ∧ zipped element-wise own equality, or a lock-step loop over both whole walkers decided at the first differing round); Clone derived / clone_from copies table, free list and counter; Table::clone copies the node vector; from_iter inserts every item into a fresh collection; Serialize collects the whole collection; Deserialize goes through from_iter.",
         TB + "; std's Iterator::eq and derive(Clone) trusted; value-level round trips through a foreign format not decided", "DESIGN.md §6 C19"),
 "C20": (AI + " over all public entry points (panic reachability), MIR panic-site inventory with coverage, loop-progress and callback-time consistency replay",
         "No analysed path of any entry point (incl. two-call sequences on borrowed entry handles) ends in a panic; every panic-capable site lies in an analysed function or a tabulated class; every loop iteration pops or descends; at every user-callback invocation counter and slots are consistent; the arena shrinks only with the free list. D3 (view set() not counted → later `count -= 1` underflow) is an open known finding.",
         TB + "; assumes C04/C15/C16 invariants of the pre-state; panics in user Prefix impls and allocation failure not decided", "DESIGN.md §6 C20"),
})
NOT_YET = {}

def main():
    props = [json.loads(l) for l in open(os.path.join(V, "properties.jsonl"))]
    checks = []
    na = []
    for p in props:
        pid = p["id"]
        if pid in CLAIMED:
            tech, text, note, ref = CLAIMED[pid]
            checks.append({
                "property_id": pid,
                "quick_cmd": "./check %s --tier quick" % pid,
                "thorough_cmd": "./check %s --tier thorough" % pid,
                "evidence_file": "/verif/evidence/%s.json" % pid,
                "replay_cmd_template": "./check --replay {path}",
                "engine": "pt",
                "level_claimed": {"category": "other", "text": text, "design_ref": ref},
                "level_note": note,
                "technique": tech,
            })
        else:
            na.append({"property_id": pid, "reason": NOT_YET.get(pid, "check not built yet in this round (static rules planned in DESIGN.md §6); not claimed until it runs")})
    m = {
        "version": 1,
        "setup_cmd": "cd /verif/driver && CARGO_NET_OFFLINE=true cargo build --offline",
        "hooks": {"guard": "prefix_trie_verif", "enable": "none needed: the checks read rustc's THIR/MIR of the unmodified library (no source hook)",
                  "baseline_off_cmd": BASE, "source_commits": [], "add_only": True},
        "engines": [{"name": "pt", "path": "/verif/pt", "serves_properties": [c["property_id"] for c in checks],
                     "kind_free_text": "static analysis: rustc_private fact extractor (driver/) + Python rule engine (queries, path/typestate analysis, finite abstract interpreter, compile-fail witnesses)"}],
        "checks": checks,
        "not_applicable": na,
        "notes": "All checks are static: `cargo +nightly check` with the fact-extracting rustc driver, then rules over the facts. No test of /repo is run by any check. Fix commits in /repo: see known_findings.json.",
    }
    json.dump(m, open(os.path.join(V, "MANIFEST.json"), "w"), indent=1)
    print("claimed", len(checks), "not applicable", len(na))

main()
