#!/usr/bin/env python3
"""Regenerates MANIFEST.json from the table below (kept in one place so it stays valid)."""
import json, os
V = os.path.dirname(os.path.dirname(os.path.abspath(__file__)))
BASE = "cd /repo && cargo nextest run --workspace --no-fail-fast --offline || cargo test --workspace --no-fail-fast --offline"

CLAIMED = {
 # id: (technique, level text, level note, design ref)
 "C04": ("finite abstract interpretation of the typed tree (THIR): presence/counter effect pairing on every path of every "
         "function whose MIR mutably uses Node::value or writes PrefixMap::count; handle typestate through the only constructor",
         "Decides the inductive invariant count = #{nodes holding a value}: every path of every mutator changes both sides by the same "
         "amount (R04.1), borrowed OccupiedEntry handles keep their node valued (R04.2), freed slots are value-less (R04.3), "
         "len/is_empty read only the counter (R04.4), no exported signature leaks &mut Option/Node/Table (R04.5). Exhaustive over the "
         "abstract input classes of each function; not a proof of the whole-history statement beyond this induction step.",
         "trusted: rustc front end facts, pt/models.py std model; D3 (TrieViewMut::remove/set) is an open known finding",
         "DESIGN.md §6 C04"),
}
NOT_YET = {}

def main():
    props = [json.loads(l) for l in open(os.path.join(V, "properties.jsonl"))]
    checks = []
    na = []
    for p in props:
        pid = p["id"]
        if pid in CLAIMED:
            tech, text, note, ref = CLAIMED[pid]
            checks.append({
                "property_id": pid,
                "quick_cmd": "./check %s --tier quick" % pid,
                "thorough_cmd": "./check %s --tier thorough" % pid,
                "evidence_file": "/verif/evidence/%s.json" % pid,
                "replay_cmd_template": "./check --replay {path}",
                "engine": "pt",
                "level_claimed": {"category": "other", "text": text, "design_ref": ref},
                "level_note": note,
                "technique": tech,
            })
        else:
            na.append({"property_id": pid, "reason": NOT_YET.get(pid, "check not built yet in this round (static rules planned in DESIGN.md §6); not claimed until it runs")})
    m = {
        "version": 1,
        "setup_cmd": "cd /verif/driver && CARGO_NET_OFFLINE=true cargo build --offline",
        "hooks": {"guard": "prefix_trie_verif", "enable": "none needed: the checks read rustc's THIR/MIR of the unmodified library (no source hook)",
                  "baseline_off_cmd": BASE, "source_commits": [], "add_only": True},
        "engines": [{"name": "pt", "path": "/verif/pt", "serves_properties": [c["property_id"] for c in checks],
                     "kind_free_text": "static analysis: rustc_private fact extractor (driver/) + Python rule engine (queries, path/typestate analysis, finite abstract interpreter, compile-fail witnesses)"}],
        "checks": checks,
        "not_applicable": na,
        "notes": "All checks are static: `cargo +nightly check` with the fact-extracting rustc driver, then rules over the facts. No test of /repo is run by any check. Fix commits in /repo: see known_findings.json.",
    }
    json.dump(m, open(os.path.join(V, "MANIFEST.json"), "w"), indent=1)
    print("claimed", len(checks), "not applicable", len(na))

main()
