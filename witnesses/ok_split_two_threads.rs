// expect: compile
// Lines ending in `//~` are the offending ones; the twin (those lines removed) must compile.
#![allow(unused)]
use prefix_trie::*;
#[allow(unused_imports)] use prefix_trie::map::*;
#[allow(unused_imports)] use prefix_trie::trieview::*;
type P = (u32, u8);
fn main() {
    let mut m: PrefixMap<P, i32> = PrefixMap::new();
    m.insert((0, 1), 1); m.insert((1 << 31, 1), 2);
    let (l, r) = m.view_mut().split();
    std::thread::scope(|s| {
        if let Some(l) = l { s.spawn(move || for (_, v) in l { *v += 1; }); }
        if let Some(r) = r { s.spawn(move || for (_, v) in r { *v += 1; }); }
    });
}
