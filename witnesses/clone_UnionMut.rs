// expect: E0599
// Lines ending in `//~` are the offending ones; the twin (those lines removed) must compile.
#![allow(unused)]
use prefix_trie::*;
#[allow(unused_imports)] use prefix_trie::map::*;
#[allow(unused_imports)] use prefix_trie::trieview::*;
type P = (u32, u8);
fn main() {
    let mut m: PrefixMap<P, i32> = PrefixMap::new();
    let mut m2: PrefixMap<P, i32> = PrefixMap::new();
    let mut a = m.view_mut();
    let h = a.union_mut(&mut m2);
    let c = h.clone(); //~
}
