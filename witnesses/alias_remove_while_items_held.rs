// expect: E0499
// Lines ending in `//~` are the offending ones; the twin (those lines removed) must compile.
#![allow(unused)]
use prefix_trie::*;
#[allow(unused_imports)] use prefix_trie::map::*;
#[allow(unused_imports)] use prefix_trie::trieview::*;
type P = (u32, u8);
fn main() {
    let mut m: PrefixMap<P, i32> = PrefixMap::new();
    let mut v = m.view_mut();
    let items: Vec<_> = v.iter_mut().collect();
    v.remove(); //~
    drop(items);
}
