// expect: E0277
// Lines ending in `//~` are the offending ones; the twin (those lines removed) must compile.
#![allow(unused)]
use prefix_trie::*;
#[allow(unused_imports)] use prefix_trie::map::*;
#[allow(unused_imports)] use prefix_trie::trieview::*;
type P = (u32, u8);
fn is_send<T: Send>() {}
fn is_sync<T: Sync>() {}
#[allow(dead_code)] struct NS(std::marker::PhantomData<std::sync::MutexGuard<'static, ()>>); // Sync but not Send
fn main() {
    is_send::<TrieViewMut<'static, P, NS>>(); //~
}
